(* DcEdge.v -- a model of [dc_edge] (fidget-mesh/src/dc.rs) for four leaf
   cells of EQUAL depth around one edge, on top of the MDC tables.

   - [dc_edge_same]: the triangle emission (a fan of four triangles around
     the edge-intersection vertex).
   - [dc_edge_same_fan]: it never hits an [unwrap] on [None] when the four
     cells agree that the shared edge changes sign, and the emitted fan is
     given in closed form; its rotation sense is decided by the sign of the
     edge start.
   - [fan_orientation]: geometrically, with each cell vertex in the closed
     quadrant of its own cell and the intersection vertex on the edge, every
     emitted triangle has its normal pointing from the inside end of the edge
     to the outside end.
   - [ambiguous_face_nonmanifold]: a concrete configuration of equal-size
     leaf cells for which the emitted triangles use one directed mesh edge
     twice -- so no mesh containing them satisfies [manifold].

   Imports: Coq stdlib, MeshCheck, MdcTables (+ the generated tables). *)

From Coq Require Import NArith ZArith List Bool Lia.
From FV Require Import MeshCheck MdcTables.
Import ListNotations.
Open Scope N_scope.

(* ------------------------------------------------------------------ *)
(** * The model                                                         *)
(* ------------------------------------------------------------------ *)

(** [Leaf { mask, index }] of cell.rs: corner mask and the offset of the
    cell's first vertex in [Octree::verts]. *)
Record leaf := mkLeaf { lmask : N; lindex : N }.

(** [Leaf::edge]. *)
Definition leaf_edge (l : leaf) (e : N) : option (N * N) := nthN (ET (lmask l)) e None.

(** Which of its own 12 edges the shared edge is, for the cells at positions
    [0, U, U|V, V] around an edge along axis number t (dc.rs: [edges]). *)
Definition cell_edges (t : N) : list N := [t * 4 + 3; t * 4 + 2; t * 4 + 0; t * 4 + 1].

Fixpoint all_some {A} (l : list (option A)) : option (list A) :=
  match l with
  | [] => Some []
  | None :: _ => None
  | Some x :: l' => match all_some l' with Some r => Some (x :: r) | None => None end
  end.

Definition dleaf := mkLeaf 0 0.

(** [dc_edge] when all four cells are leaves ([Cell::Leaf]) of the same
    depth and pairwise distinct.

    - [deepest]: [(0..4).max_by_key(|i| cs[*i].depth)]; Rust's [max_by_key]
      returns the LAST maximal element, so with equal depths this is 3.
    - [starting_sign] is [true] when the start corner (t bit clear) of the
      edge is OUTSIDE the shape ([!(mask & start)]).
    - the result is [None] where the Rust code would panic on
      [Option::unwrap]; [Some []] is the early [return].
    - triangles are given with indices into [Octree::verts]
      ([leaf.index + offset]); [MeshBuilder::vertex] renames them
      injectively. *)
Definition dc_edge_same (t : N) (ls : list leaf) : option (list tri) :=
  let edges := cell_edges t in
  let deepest := 3%nat in
  let ld := nth deepest ls dleaf in
  let se := edge_corners (nth deepest edges 0) in
  let start := negb (bit (lmask ld) (fst se)) in
  let end_ := negb (bit (lmask ld) (snd se)) in
  if Bool.eqb start end_ then Some []
  else
    match all_some (map (fun le : leaf * N => leaf_edge (fst le) (snd le)) (combine ls edges)) with
    | None => None
    | Some verts =>
        let i := lindex ld + snd (nth deepest verts (0, 0)) in
        let vs := map (fun lv : leaf * (N * N) => lindex (fst lv) + fst (snd lv))
                      (combine ls verts) in
        let winding := if start then 3%nat else 1%nat in
        Some (map (fun j => (nth j vs 0, nth ((j + winding) mod 4) vs 0, i))
                  [0; 1; 2; 3]%nat)
    end.

(* ------------------------------------------------------------------ *)
(** * The emitted fan                                                   *)
(* ------------------------------------------------------------------ *)

Lemma leaf_edge_some l e :
  lmask l < 256 -> e < 12 -> sign_change (lmask l) e = true ->
  exists v k, leaf_edge l e = Some (v, k).
Proof.
  intros Hm He Hs. pose proof (T3_some_iff_sign_change _ Hm e He) as H.
  rewrite Hs in H. unfold leaf_edge.
  destruct (nthN (ET (lmask l)) e None) as [[v k]|]; [eauto|discriminate].
Qed.

(** The start corner (t bit clear) of the shared edge as seen from the cell
    at position 3 (= V), whose mask decides the winding. *)
Definition start_corner (t : N) : N := fst (edge_corners (t * 4 + 1)).

Theorem dc_edge_same_fan (t : N) (la lb lc ld : leaf) :
  t < 3 ->
  lmask la < 256 -> lmask lb < 256 -> lmask lc < 256 -> lmask ld < 256 ->
  sign_change (lmask la) (t * 4 + 3) = true ->
  sign_change (lmask lb) (t * 4 + 2) = true ->
  sign_change (lmask lc) (t * 4 + 0) = true ->
  sign_change (lmask ld) (t * 4 + 1) = true ->
  exists va ka vb kb vc kc vd kd,
    leaf_edge la (t * 4 + 3) = Some (va, ka) /\
    leaf_edge lb (t * 4 + 2) = Some (vb, kb) /\
    leaf_edge lc (t * 4 + 0) = Some (vc, kc) /\
    leaf_edge ld (t * 4 + 1) = Some (vd, kd) /\
    let A := lindex la + va in
    let B := lindex lb + vb in
    let C := lindex lc + vc in
    let D := lindex ld + vd in
    let I := lindex ld + kd in
    dc_edge_same t [la; lb; lc; ld] =
    Some (if bit (lmask ld) (start_corner t)
          then [(A, B, I); (B, C, I); (C, D, I); (D, A, I)]   (* start inside  *)
          else [(A, D, I); (B, A, I); (C, B, I); (D, C, I)]). (* start outside *)
Proof.
  intros Ht Ha Hb Hc Hd Sa Sb Sc Sd.
  assert (Hcases : t = 0 \/ t = 1 \/ t = 2) by lia.
  destruct (leaf_edge_some la (t * 4 + 3) Ha ltac:(lia) Sa) as (va & ka & Ea).
  destruct (leaf_edge_some lb (t * 4 + 2) Hb ltac:(lia) Sb) as (vb & kb & Eb).
  destruct (leaf_edge_some lc (t * 4 + 0) Hc ltac:(lia) Sc) as (vc & kc & Ec).
  destruct (leaf_edge_some ld (t * 4 + 1) Hd ltac:(lia) Sd) as (vd & kd & Ed).
  exists va, ka, vb, kb, vc, kc, vd, kd.
  repeat (split; [assumption|]).
  unfold dc_edge_same, cell_edges, start_corner.
  cbn [nth combine map fst snd all_some].
  rewrite Ea, Eb, Ec, Ed. cbn [all_some nth combine map fst snd].
  unfold sign_change in Sd.
  destruct (edge_corners (t * 4 + 1)) as [c0 c1]. cbn [fst snd].
  destruct (bit (lmask ld) c0), (bit (lmask ld) c1); try discriminate; reflexivity.
Qed.

(* ------------------------------------------------------------------ *)
(** * Orientation of the fan                                            *)
(* ------------------------------------------------------------------ *)

Open Scope Z_scope.

(** Coordinates in the frame (t, u, v) of the edge, converted to (x, y, z).
    The frames are the cyclic ones of frame.rs: XYZ, YZX, ZXY. *)
Definition to_xyz (t : N) (p : vec) : vec :=
  let '(pt, pu, pv) := p in
  match t with
  | 0%N => (pt, pu, pv)
  | 1%N => (pv, pt, pu)
  | _ => (pu, pv, pt)
  end.

Definition axis_comp (t : N) (n : vec) : Z :=
  let '(x, y, z) := n in match t with 0%N => x | 1%N => y | _ => z end.

(** (Twice the area times) the normal of triangle (a, b, c), right-hand rule. *)
Definition tri_normal (a b c : vec) : vec := cross (vsub b a) (vsub c a).

(** The component along the edge axis of the normal of (P, Q, I), for I on
    the edge (u = v = 0 in edge-relative coordinates). *)
Lemma fan_normal_t (t : N) pt pu pv qt qu qv it :
  (t < 3)%N ->
  axis_comp t (tri_normal (to_xyz t (pt, pu, pv)) (to_xyz t (qt, qu, qv)) (to_xyz t (it, 0, 0)))
  = pu * qv - pv * qu.
Proof.
  intro Ht. assert (Hc : t = 0%N \/ t = 1%N \/ t = 2%N) by lia.
  destruct Hc as [ -> | [ -> | -> ] ]; unfold tri_normal, to_xyz, axis_comp, cross, vsub; ring.
Qed.

(** Positions relative to the edge: cell a lies in the quadrant u<=0,v<=0,
    b in u>=0,v<=0, c in u>=0,v>=0, d in u<=0,v>=0 (dc.rs: "cells positions
    are in the order [0, U, U|V, V], a right-handed winding about +T"), and
    each cell's vertex lies in (the closure of) its own cell.

    With the edge START inside (so the outside is towards +t), the fan is
    (A,B,I),(B,C,I),(C,D,I),(D,A,I) and every normal has a t-component >= 0:
    it points from inside to outside.  With the start outside the fan is
    reversed and every t-component is <= 0.  The inequalities are strict when
    the vertices are strictly inside their quadrants. *)
Theorem fan_orientation (t : N) (at_ au av bt bu bv ct cu cv dt du dv it : Z) :
  (t < 3)%N ->
  au <= 0 -> av <= 0 -> 0 <= bu -> bv <= 0 -> 0 <= cu -> 0 <= cv -> du <= 0 -> 0 <= dv ->
  let A := to_xyz t (at_, au, av) in
  let B := to_xyz t (bt, bu, bv) in
  let C := to_xyz t (ct, cu, cv) in
  let D := to_xyz t (dt, du, dv) in
  let I := to_xyz t (it, 0, 0) in
  (* start inside: winding 1 *)
  (0 <= axis_comp t (tri_normal A B I) /\ 0 <= axis_comp t (tri_normal B C I) /\
   0 <= axis_comp t (tri_normal C D I) /\ 0 <= axis_comp t (tri_normal D A I)) /\
  (* start outside: winding 3 *)
  (axis_comp t (tri_normal A D I) <= 0 /\ axis_comp t (tri_normal B A I) <= 0 /\
   axis_comp t (tri_normal C B I) <= 0 /\ axis_comp t (tri_normal D C I) <= 0).
Proof.
  intros Ht Hau Hav Hbu Hbv Hcu Hcv Hdu Hdv. cbv zeta.
  rewrite !fan_normal_t by assumption. repeat split; nia.
Qed.

Theorem fan_orientation_strict (t : N) (at_ au av bt bu bv ct cu cv dt du dv it : Z) :
  (t < 3)%N ->
  au < 0 -> av < 0 -> 0 < bu -> bv < 0 -> 0 < cu -> 0 < cv -> du < 0 -> 0 < dv ->
  let A := to_xyz t (at_, au, av) in
  let B := to_xyz t (bt, bu, bv) in
  let C := to_xyz t (ct, cu, cv) in
  let D := to_xyz t (dt, du, dv) in
  let I := to_xyz t (it, 0, 0) in
  (0 < axis_comp t (tri_normal A B I) /\ 0 < axis_comp t (tri_normal B C I) /\
   0 < axis_comp t (tri_normal C D I) /\ 0 < axis_comp t (tri_normal D A I)) /\
  (axis_comp t (tri_normal A D I) < 0 /\ axis_comp t (tri_normal B A I) < 0 /\
   axis_comp t (tri_normal C B I) < 0 /\ axis_comp t (tri_normal D C I) < 0).
Proof.
  intros Ht Hau Hav Hbu Hbv Hcu Hcv Hdu Hdv. cbv zeta.
  rewrite !fan_normal_t by assumption. repeat split; nia.
Qed.

(** The fan is closed around I: its boundary is the cycle A-B-C-D, each
    spoke {X, I} is used once in each direction. *)
Lemma fan_spokes_cancel (A B C D I : N) :
  let fan := [(A, B, I); (B, C, I); (C, D, I); (D, A, I)]%N in
  forall X, In X [A; B; C; D] ->
    In (X, I) (edges fan) /\ In (I, X) (edges fan).
Proof.
  cbv zeta. intros X HX. simpl in HX. simpl.
  destruct HX as [<-|[<-|[<-|[<-|[]]]]]; split; tauto.
Qed.

Close Scope Z_scope.

(* ------------------------------------------------------------------ *)
(** * A non-manifold configuration                                      *)
(* ------------------------------------------------------------------ *)

(** Mask of the equal-size neighbour of a cell in direction +axis / -axis
    whose remaining (far) corners are all outside: the corners on the shared
    face copy the signs of the cell's corners on that face. *)
Definition nbr (m axis : N) (plus : bool) : N :=
  fold_left N.lor
    (map (fun c =>
            let on_face := Bool.eqb (N.testbit c (N.log2 axis)) (negb plus) in
            if on_face && bit m (N.lxor c axis) then 2 ^ c else 0)
         (range 8)) 0.

(** Cell A = mask 185 on top of cell B = mask 155 (see
    [MdcTables.ambiguous_face_single_vertices]); eight side neighbours.
    Every cell gets its own block of 16 vertex slots. *)
Definition cA   := mkLeaf 185 0.
Definition cB   := mkLeaf 155 16.
Definition cAym := mkLeaf (nbr 185 2 false) 32.
Definition cBym := mkLeaf (nbr 155 2 false) 48.
Definition cAyp := mkLeaf (nbr 185 2 true) 64.
Definition cByp := mkLeaf (nbr 155 2 true) 80.
Definition cAxm := mkLeaf (nbr 185 1 false) 96.
Definition cBxm := mkLeaf (nbr 155 1 false) 112.
Definition cAxp := mkLeaf (nbr 185 1 true) 128.
Definition cBxp := mkLeaf (nbr 155 1 true) 144.

(** The four [dc_edge] calls for the four edges of the face shared by A and
    B, with the cells in the order [0, U, U|V, V] required by dc.rs
    (T = X: (U, V) = (Y, Z);  T = Y: (U, V) = (Z, X)). *)
Definition witness_calls : list (option (list tri)) :=
  [ dc_edge_same 0 [cBym; cB; cA; cAym];     (* X-edge at y = 0 *)
    dc_edge_same 0 [cB; cByp; cAyp; cA];     (* X-edge at y = 1 *)
    dc_edge_same 1 [cBxm; cAxm; cA; cB];     (* Y-edge at x = 0 *)
    dc_edge_same 1 [cB; cA; cAxp; cBxp] ].   (* Y-edge at x = 1 *)

Definition witness_tris : list tri :=
  flat_map (fun o => match o with Some l => l | None => [] end) witness_calls.

(** All four calls succeed with four triangles each; vertex 0 (the single
    vertex of A) and vertex 16 (the single vertex of B) are joined by the
    directed mesh edge (16, 0) TWICE and by (0, 16) TWICE. *)
Lemma witness_facts :
  map (fun o => match o with Some l => length l | None => 99%nat end) witness_calls
    = [4; 4; 4; 4]%nat /\
  ecount (0, 16) (edges witness_tris) = 2%nat /\
  ecount (16, 0) (edges witness_tris) = 2%nat.
Proof. vm_compute. repeat split; reflexivity. Qed.

Lemma ecount_app e l1 l2 : ecount e (l1 ++ l2) = (ecount e l1 + ecount e l2)%nat.
Proof. unfold ecount. apply count_occ_app. Qed.

Lemma edges_app l1 l2 : edges (l1 ++ l2) = edges l1 ++ edges l2.
Proof. unfold edges. apply flat_map_app. Qed.

(** Hence: no triangle list that contains the output of these four
    [dc_edge] calls is a closed 2-manifold in the sense of [manifold]. *)
Theorem ambiguous_face_nonmanifold :
  forall nv pre post, ~ manifold nv (pre ++ witness_tris ++ post).
Proof.
  intros nv pre post [_ H]. specialize (H 0 16). cbv zeta in H.
  destruct H as [Hle _].
  rewrite !edges_app, !ecount_app in Hle.
  destruct witness_facts as (_ & H2 & _). rewrite H2 in Hle. lia.
Qed.

(** The same four calls with the cells taken in an arbitrary interleaving
    with other triangles are rejected by the checker. *)
Corollary ambiguous_face_rejected :
  forall nv pre post, check_manifold nv (pre ++ witness_tris ++ post) = false.
Proof.
  intros nv pre post. destruct (check_manifold nv _) eqn:H; [|reflexivity].
  apply check_manifold_sound in H. now apply ambiguous_face_nonmanifold in H.
Qed.

Print Assumptions dc_edge_same_fan.
Print Assumptions fan_orientation.
Print Assumptions fan_orientation_strict.
Print Assumptions ambiguous_face_nonmanifold.
