(* Ops.v — the opcode universe shared by SsaOp and RegOp (compiler/op.rs).

   The Rust enum has one variant per (opcode, operand form); the model factors
   it as  uop | bop x {RegReg, RegImm, ImmReg}.  Which (bop, form) pairs exist
   in Rust is the table [bop_has_form]; it is compared with the table
   regenerated from the Rust source in gen/OpsGen.v on every run. *)
From Coq Require Import List Bool Arith ZArith.
Import ListNotations.

Inductive uop :=
| UNeg | UAbs | URecip | USqrt | USquare | UFloor | UCeil | URound
| USin | UCos | UTan | UAsin | UAcos | UAtan | UExp | ULn | UNot | URand
| UCopy.   (* CopyReg *)

Inductive bop :=
| BAdd | BSub | BMul | BDiv | BAtan | BMin | BMax | BCompare | BMod | BAnd | BOr | BMix.

Inductive form := RegReg | RegImm | ImmReg.

Definition uop_eqb (a b : uop) : bool :=
  match a, b with
  | UNeg, UNeg | UAbs, UAbs | URecip, URecip | USqrt, USqrt | USquare, USquare
  | UFloor, UFloor | UCeil, UCeil | URound, URound | USin, USin | UCos, UCos
  | UTan, UTan | UAsin, UAsin | UAcos, UAcos | UAtan, UAtan | UExp, UExp
  | ULn, ULn | UNot, UNot | URand, URand | UCopy, UCopy => true
  | _, _ => false
  end.

Definition bop_eqb (a b : bop) : bool :=
  match a, b with
  | BAdd, BAdd | BSub, BSub | BMul, BMul | BDiv, BDiv | BAtan, BAtan | BMin, BMin
  | BMax, BMax | BCompare, BCompare | BMod, BMod | BAnd, BAnd | BOr, BOr | BMix, BMix => true
  | _, _ => false
  end.

(* numbering used on the wire between harness, runner and gen tables *)
Definition uop_id (u : uop) : nat :=
  match u with
  | UNeg => 0 | UAbs => 1 | URecip => 2 | USqrt => 3 | USquare => 4 | UFloor => 5
  | UCeil => 6 | URound => 7 | USin => 8 | UCos => 9 | UTan => 10 | UAsin => 11
  | UAcos => 12 | UAtan => 13 | UExp => 14 | ULn => 15 | UNot => 16 | URand => 17
  | UCopy => 18
  end.
Definition all_uops : list uop :=
  [UNeg; UAbs; URecip; USqrt; USquare; UFloor; UCeil; URound; USin; UCos; UTan;
   UAsin; UAcos; UAtan; UExp; ULn; UNot; URand; UCopy].
Definition bop_id (b : bop) : nat :=
  match b with
  | BAdd => 0 | BSub => 1 | BMul => 2 | BDiv => 3 | BAtan => 4 | BMin => 5 | BMax => 6
  | BCompare => 7 | BMod => 8 | BAnd => 9 | BOr => 10 | BMix => 11
  end.
Definition all_bops : list bop :=
  [BAdd; BSub; BMul; BDiv; BAtan; BMin; BMax; BCompare; BMod; BAnd; BOr; BMix].
Definition form_id (f : form) : nat := match f with RegReg => 0 | RegImm => 1 | ImmReg => 2 end.

(* has_choice of compiler/op.rs *)
Definition bop_has_choice (b : bop) : bool :=
  match b with BMin | BMax | BAnd | BOr => true | _ => false end.

(* Which operand forms exist as Rust enum variants. *)
Definition bop_has_form (b : bop) (f : form) : bool :=
  match f with
  | RegReg | RegImm => true
  | ImmReg =>
      match b with
      | BSub | BDiv | BAtan | BCompare | BMod | BMix => true
      | BAdd | BMul | BMin | BMax | BAnd | BOr => false
      end
  end.

(* SsaTape::new: which variant a Binary(op, imm, reg) node becomes: the form,
   or None where the Rust code panics ("AndImmReg must be collapsed"). *)
Definition flatten_imm_lhs (b : bop) : option form :=
  match b with
  | BAdd | BMul | BMin | BMax => Some RegImm      (* commuted *)
  | BSub | BDiv | BAtan | BCompare | BMod | BMix => Some ImmReg
  | BAnd | BOr => None
  end.
