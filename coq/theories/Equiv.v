(* Equiv.v — a verified lockstep equivalence checker for two register-level tapes
   (both may contain Load/Store).  Used for C15: the tape decoded from the bytecode
   words by a documentation-only decoder against the register tape it came from. *)
From Coq Require Import List Bool Arith Lia.
From FV Require Import Ops Tape Validate ValidateProof.
Import ListNotations.

Section Equiv.
Context {I : Type}.
Variable ieqb : I -> I -> bool.
Notation op := (Tape.op I).

Definition srel := list (nat * nat).
Definition related (s : srel) (a b : nat) : bool :=
  existsb (fun p => Nat.eqb (fst p) a && Nat.eqb (snd p) b) s.
Definition srel_set (s : srel) (a b : nat) : srel :=
  (a, b) :: filter (fun p => negb (Nat.eqb (fst p) a) && negb (Nat.eqb (snd p) b)) s.

Definition eq_op (x y : op) (s : srel) : option srel :=
  match x, y with
  | OOutput a i, OOutput b j => if related s a b && Nat.eqb i j then Some s else None
  | OInput o i, OInput o' j => if Nat.eqb i j then Some (srel_set s o o') else None
  | OCopyImm o c, OCopyImm o' c' => if ieqb c c' then Some (srel_set s o o') else None
  | OUn u o a, OUn u' o' a' => if uop_eqb u u' && related s a a' then Some (srel_set s o o') else None
  | OBinRR b o l r, OBinRR b' o' l' r' =>
      if bop_eqb b b' && related s l l' && related s r r' then Some (srel_set s o o') else None
  | OBinRI b o a c, OBinRI b' o' a' c' =>
      if bop_eqb b b' && related s a a' && ieqb c c' then Some (srel_set s o o') else None
  | OBinIR b o a c, OBinIR b' o' a' c' =>
      if bop_eqb b b' && related s a a' && ieqb c c' then Some (srel_set s o o') else None
  | OLoad r m, OLoad r' m' => if related s m m' then Some (srel_set s r r') else None
  | OStore r m, OStore r' m' => if related s r r' then Some (srel_set s m m') else None
  | _, _ => None
  end.

Fixpoint equiv_walk (xs ys : list op) (s : srel) : bool :=
  match xs, ys with
  | [], [] => true
  | x :: xs', y :: ys' => match eq_op x y s with Some s' => equiv_walk xs' ys' s' | None => false end
  | _, _ => false
  end.

(* both in evaluation order *)
Definition check_equiv (xs ys : list op) : bool := equiv_walk xs ys [].

End Equiv.

Section EquivSound.
Context {V I : Type}.
Variable ieqb : I -> I -> bool.
Hypothesis ieqb_sound : forall a b, ieqb a b = true -> a = b.
Variable sem : Sem V I.
Variable inputs : list V.
Notation op := (Tape.op I).
Notation st := (mstate (V:=V)).

Definition ragree (s : srel) (ea eb : env (V:=V)) : Prop :=
  forall a b, In (a, b) s -> ea a = eb b.

Lemma related_agree s ea eb a b : ragree s ea eb -> related s a b = true -> ea a = eb b.
Proof.
  unfold related; intros Ha H. apply existsb_exists in H as ([x y] & Hin & Hxy). simpl in Hxy.
  apply andb_prop in Hxy as [Hx Hy]. apply Nat.eqb_eq in Hx, Hy. subst. now apply Ha.
Qed.

Lemma ragree_set s ea eb a b v : ragree s ea eb -> ragree (srel_set s a b) (upd ea a v) (upd eb b v).
Proof.
  intros Ha x y [E | Hin].
  - injection E as <- <-. unfold upd. now rewrite !Nat.eqb_refl.
  - apply filter_In in Hin as [Hin Hf]. simpl in Hf. apply andb_prop in Hf as [Hx Hy].
    apply negb_true_iff in Hx, Hy. unfold upd. rewrite Hx, Hy. now apply Ha.
Qed.

Definition same_all (a b : st) : Prop := m_out a = m_out b /\ m_trace a = m_trace b.

Ltac rw_slots := repeat match goal with E : m_slots _ _ = m_slots _ _ |- _ => rewrite E; clear E end.

Lemma eq_op_step x y s s' a b :
  eq_op ieqb x y s = Some s' -> ragree s (m_slots a) (m_slots b) -> same_all a b ->
  ragree s' (m_slots (step sem inputs a x)) (m_slots (step sem inputs b y)) /\
  same_all (step sem inputs a x) (step sem inputs b y).
Proof.
  intros H Ha [Ho Ht].
  destruct x, y; simpl in H; try discriminate;
    match type of H with
    | (if ?c then _ else _) = _ => let E := fresh "E" in destruct c eqn:E; [|discriminate]
    end; injection H as <-;
    repeat match goal with
    | E : _ && _ = true |- _ => apply andb_prop in E; destruct E
    end;
    repeat match goal with
    | E : Nat.eqb _ _ = true |- _ => apply Nat.eqb_eq in E; subst
    | E : uop_eqb _ _ = true |- _ => apply uop_eqb_eq in E; subst
    | E : bop_eqb _ _ = true |- _ => apply bop_eqb_eq in E; subst
    | E : ieqb _ _ = true |- _ => apply ieqb_sound in E; subst
    end;
    repeat match goal with
    | E : related _ _ _ = true |- _ => apply (related_agree _ _ _ _ _ Ha) in E
    end.
  - split; [exact Ha|]. split; simpl; [rw_slots; rewrite Ho; reflexivity | exact Ht].
  - split; [apply ragree_set, Ha | split; assumption].
  - split; [apply ragree_set, Ha | split; assumption].
  - simpl. rw_slots. split; [apply ragree_set, Ha | split; assumption].
  - simpl. rw_slots. destruct (bop_has_choice b1); simpl;
      (split; [apply ragree_set, Ha | split; simpl; congruence]).
  - simpl. rw_slots. destruct (bop_has_choice b1); simpl;
      (split; [apply ragree_set, Ha | split; simpl; congruence]).
  - simpl. rw_slots. split; [apply ragree_set, Ha | split; assumption].
  - simpl. rw_slots. split; [apply ragree_set, Ha | split; assumption].
  - simpl. rw_slots. split; [apply ragree_set, Ha | split; assumption].
Qed.

Lemma equiv_walk_sound xs : forall ys s a b,
  equiv_walk ieqb xs ys s = true -> ragree s (m_slots a) (m_slots b) -> same_all a b ->
  same_all (run_fwd sem inputs xs a) (run_fwd sem inputs ys b).
Proof.
  induction xs as [|x xs IH]; intros [|y ys] s a b H Ha Hs; simpl in H; try discriminate; [exact Hs|].
  destruct (eq_op ieqb x y s) as [s'|] eqn:E; [|discriminate].
  destruct (eq_op_step _ _ _ _ _ _ E Ha Hs) as [Ha' Hs'].
  unfold run_fwd; simpl. exact (IH _ _ _ _ H Ha' Hs').
Qed.

Theorem check_equiv_sound xs ys :
  check_equiv ieqb xs ys = true ->
  forall (e0 e0' : env) (out0 : list V),
    m_out (run_fwd sem inputs xs (init_state e0 out0)) = m_out (run_fwd sem inputs ys (init_state e0' out0)).
Proof.
  intros H e0 e0' out0.
  apply (equiv_walk_sound _ _ _ _ _ H); [intros a b [] | split; reflexivity].
Qed.

End EquivSound.
