(* IntervalLibm.v — enclosure (C03) and totality (C11) of the monotone "libm"
   interval operations: iexp, iln, iatan, ifloor, iceil, iround, iasin, iacos, over
   the extended reals with NaN, with the real functions of the Coq standard library
   (exp, ln, atan, asin, acos from Rpower / Ratan; floor/ceil/round from [up]).
   All monotonicity facts are PROVED here from stdlib lemmas; nothing is assumed. *)
From Coq Require Import Reals Lra Lia Psatz List Bool.
From FV Require Import Ops Tape Interval ER ERLemmas IntervalTotal.
Local Open Scope R_scope.

(* ---- monotonicity on R ---------------------------------------------------------- *)
Lemma exp_le a b : a <= b -> exp a <= exp b.
Proof. intros [H| ->]; [left; now apply exp_increasing | lra]. Qed.
Lemma ln_le a b : 0 < a -> a <= b -> ln a <= ln b.
Proof. intros Ha [H| ->]; [left; now apply ln_increasing | lra]. Qed.
Lemma atan_le a b : a <= b -> atan a <= atan b.
Proof. intros [H| ->]; [left; now apply atan_increasing | lra]. Qed.

Lemma asin_le a b : -1 <= a -> a <= b -> b <= 1 -> asin a <= asin b.
Proof.
  intros Ha Hab Hb. destruct (Rle_dec (asin a) (asin b)) as [H|H]; [exact H|]. exfalso.
  pose proof (asin_bound a). pose proof (asin_bound b).
  assert (sin (asin b) < sin (asin a)) by (apply sin_increasing_1; lra).
  rewrite !sin_asin in *; lra.
Qed.
Lemma acos_le a b : -1 <= a -> a <= b -> b <= 1 -> acos b <= acos a.
Proof.
  intros Ha Hab Hb. destruct (Rle_dec (acos b) (acos a)) as [H|H]; [exact H|]. exfalso.
  pose proof (acos_bound a). pose proof (acos_bound b).
  assert (cos (acos b) < cos (acos a)) by (apply cos_decreasing_1; lra).
  rewrite !cos_acos in *; lra.
Qed.

Lemma Rfloor_spec x : Rfloor x <= x < Rfloor x + 1.
Proof.
  unfold Rfloor. rewrite minus_IZR. destruct (archimed x). lra.
Qed.
Lemma Rfloor_le a b : a <= b -> Rfloor a <= Rfloor b.
Proof.
  intros H. pose proof (Rfloor_spec a). pose proof (Rfloor_spec b). unfold Rfloor in *.
  apply IZR_le. destruct (Z_le_gt_dec (up a - 1) (up b - 1)) as [L|L]; [exact L|]. exfalso.
  assert (IZR (up b - 1) + 1 <= IZR (up a - 1)).
  { rewrite <- plus_IZR. apply IZR_le. lia. }
  lra.
Qed.
Lemma Rceil_le a b : a <= b -> Rceil a <= Rceil b.
Proof. intros H. unfold Rceil. apply Ropp_le_contravar, Rfloor_le. lra. Qed.
Lemma Rfloor_IZR z : Rfloor (IZR z) = IZR z.
Proof.
  pose proof (Rfloor_spec (IZR z)) as [H1 H2]. unfold Rfloor in *.
  rewrite <- plus_IZR in H2. apply le_IZR in H1. apply lt_IZR in H2. f_equal. lia.
Qed.
Lemma Rround_le a b : a <= b -> Rround a <= Rround b.
Proof.
  intros H. unfold Rround.
  destruct (Rle_dec 0 a), (Rle_dec 0 b); try lra.
  - apply Rfloor_le; lra.
  - (* a < 0 <= b *)
    apply Rle_trans with 0.
    + unfold Rceil. assert (Rfloor 0 <= Rfloor (- (a - / 2))) by (apply Rfloor_le; lra).
      change 0 with (IZR 0) in H0 at 1. rewrite Rfloor_IZR in H0. lra.
    + assert (Rfloor 0 <= Rfloor (b + / 2)) by (apply Rfloor_le; lra).
      change 0 with (IZR 0) in H0 at 1. rewrite Rfloor_IZR in H0. lra.
  - apply Rceil_le; lra.
Qed.

Section Libm.
Variable rnd : er -> er.
Variable mix : er -> er -> er.
Notation F := (er_fl_gen rnd mix).

Lemma iexp_sound : sound1s (iexp F) er_exp.
Proof.
  start1 a x. intros Hn r H. unfold iexp in H. fl_red_in H. clear Va Ea.
  destruct Ca as [[-> ->]|[A1 A2]]; [nan_res H|].
  er_destr; res_inew H Hn; atom;
    try (apply exp_le; lra); try (left; apply exp_pos).
Qed.

Lemma iatan_sound : sound1s (iatan F) er_atan.
Proof.
  start1 a x. intros Hn r H. unfold iatan in H. fl_red_in H. clear Va Ea.
  destruct Ca as [[-> ->]|[A1 A2]]; [nan_res H|].
  er_destr; res_inew H Hn; atom;
    try (apply atan_le; lra);
    repeat match goal with |- context[atan ?z] => 
      lazymatch goal with H : _ < atan z < _ |- _ => fail | _ => pose proof (atan_bound z) end end;
    lra.
Qed.

Lemma iln_sound : sound1s (iln F) er_ln.
Proof.
  start1 a x. intros Hn r H. unfold iln in H. fl_red_in H. clear Va Ea.
  destruct Ca as [[-> ->]|[A1 A2]]; [cbn in H; nan_res H|].
  er_destr; signs; res_inew H Hn; atom; apply ln_le; lra.
Qed.

Lemma ifloor_sound : sound1s (ifloor F) er_floor.
Proof.
  start1 a x. intros Hn r H. unfold ifloor in H. fl_red_in H. clear Va Ea.
  destruct Ca as [[-> ->]|[A1 A2]]; [nan_res H|].
  er_destr; res_inew H Hn; atom; apply Rfloor_le; lra.
Qed.
Lemma iceil_sound : sound1s (iceil F) er_ceil.
Proof.
  start1 a x. intros Hn r H. unfold iceil in H. fl_red_in H. clear Va Ea.
  destruct Ca as [[-> ->]|[A1 A2]]; [nan_res H|].
  er_destr; res_inew H Hn; atom; apply Rceil_le; lra.
Qed.
Lemma iround_sound : sound1s (iround F) er_round.
Proof.
  start1 a x. intros Hn r H. unfold iround in H. fl_red_in H. clear Va Ea.
  destruct Ca as [[-> ->]|[A1 A2]]; [nan_res H|].
  er_destr; res_inew H Hn; atom; apply Rround_le; lra.
Qed.

Lemma iasin_sound : sound1s (iasin F) er_asin.
Proof.
  start1 a x. intros Hn r H. unfold iasin, gt in H. fl_red_in H. clear Va Ea.
  destruct Ca as [[-> ->]|[A1 A2]]; [cbn in H; nan_res H|].
  unfold er_asin, er_arc in *.
  er_destr; signs; res_inew H Hn; atom; try (apply asin_le; lra);
    try (apply Req_le; f_equal; lra).
Qed.

Lemma iacos_sound : sound1s (iacos F) er_acos.
Proof.
  start1 a x. intros Hn r H. unfold iacos, gt in H. fl_red_in H. clear Va Ea.
  destruct Ca as [[-> ->]|[A1 A2]]; [cbn in H; nan_res H|].
  unfold er_acos, er_arc in *.
  er_destr; signs; res_inew H Hn; atom; try (apply acos_le; lra);
    try (apply Req_le; f_equal; lra).
Qed.

(* ---- totality: all eight are total on valid operands -------------------------------- *)
Ltac tot :=
  first [ eexists; reflexivity
        | apply inew_total; first [ solve [left; atom] | solve [right; split; reflexivity] ] ].
Ltac tot1m tac :=
  intros [a1 a2] [V|[V1 V2]]; cbn [lo hi] in *;
  [ er_destr; signs; try tot; apply inew_total; left; cbn; tac | subst; cbn; signs; tot ].

Lemma iexp_total : total1 (iexp F).
Proof. unfold total1, iexp. tot1m ltac:(try (apply exp_le; lra); try (left; apply exp_pos)). Qed.
Lemma iatan_total : total1 (iatan F).
Proof.
  unfold total1, iatan.
  tot1m ltac:(try (apply atan_le; lra); pose proof PI_RGT_0;
    repeat match goal with |- context[atan ?z] =>
      lazymatch goal with H : _ < atan z < _ |- _ => fail | _ => pose proof (atan_bound z) end end;
    lra).
Qed.
Lemma iln_total : total1 (iln F).
Proof. unfold total1, iln, inan, ifrom. tot1m ltac:(apply ln_le; lra). Qed.
Lemma ifloor_total : total1 (ifloor F).
Proof. unfold total1, ifloor. tot1m ltac:(apply Rfloor_le; lra). Qed.
Lemma iceil_total : total1 (iceil F).
Proof. unfold total1, iceil. tot1m ltac:(apply Rceil_le; lra). Qed.
Lemma iround_total : total1 (iround F).
Proof. unfold total1, iround. tot1m ltac:(apply Rround_le; lra). Qed.
Lemma iasin_total : total1 (iasin F).
Proof.
  unfold total1, iasin, gt, inan, ifrom, er_asin, er_arc.
  tot1m ltac:(first [apply asin_le; lra | apply Req_le; f_equal; lra]).
Qed.
Lemma iacos_total : total1 (iacos F).
Proof.
  unfold total1, iacos, gt, inan, ifrom, er_acos, er_arc.
  tot1m ltac:(first [apply acos_le; lra | apply Req_le; f_equal; lra]).
Qed.

End Libm.

(* HISTORY (a repaired defect): before the repair iasin / iacos / iatan / iexp / iln had
   no [has_nan] guard, so an operand with exactly ONE NaN bound made [Interval::new]
   panic; the repaired code returns the NaN interval. *)
Definition iexp_old {T} (F : FL T) (i : interval T) : option (interval T) :=
  inew F (fl_exp _ F (lo i)) (fl_exp _ F (hi i)).
Theorem iexp_old_half_nan_refuted :
  exists a, has_nan er_fl a = true /\ iexp_old er_fl a = None /\ exists r, iexp er_fl a = Some r.
Proof.
  exists {| lo := ENaN; hi := EFin 0 |}. split; [reflexivity|]. split; [reflexivity|].
  eexists. reflexivity.
Qed.

Print Assumptions iasin_sound.
Print Assumptions iround_sound.
