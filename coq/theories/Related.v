(* Related.v — "soundness through composition": if a relation between two value
   types is preserved by every opcode of two semantics (as long as the left values
   stay inside a guard, e.g. "not NaN"), then running the SAME tape under the two
   semantics on related inputs gives related outputs.  Used for interval enclosure
   (C03: point vs interval), gradients (C05: value lane = point value), etc. *)
From Coq Require Import List Bool Arith Lia.
From FV Require Import Ops Tape.
Import ListNotations.

Section Related.
Context {VA VB I : Type}.
Variable semA : Sem VA I.
Variable semB : Sem VB I.
Variable rel : VA -> VB -> Prop.
Variable good : VA -> Prop.          (* guard on the left (point) values *)

Record preserved : Prop := {
  p_imm : forall c, good (s_imm semA c) -> rel (s_imm semA c) (s_imm semB c);
  p_un : forall u x y, good x -> rel x y -> good (s_un semA u x) -> rel (s_un semA u x) (s_un semB u y);
  p_rr : forall b x1 y1 x2 y2, good x1 -> good x2 -> rel x1 y1 -> rel x2 y2 ->
         good (s_rr semA b x1 x2) -> rel (s_rr semA b x1 x2) (s_rr semB b y1 y2);
  p_ri : forall b x y c, good x -> rel x y -> good (s_ri semA b x c) -> rel (s_ri semA b x c) (s_ri semB b y c);
  p_ir : forall b c x y, good x -> rel x y -> good (s_ir semA b c x) -> rel (s_ir semA b c x) (s_ir semB b c y);
}.
Hypothesis Hp : preserved.

Variable inputsA : list VA.
Variable inputsB : list VB.
Hypothesis Hin : Forall2 rel inputsA inputsB.
Hypothesis Hdflt : rel (s_dflt semA) (s_dflt semB).

(* every slot the tape reads is related and good; outputs written so far are related *)
Definition srel (written : list nat) (a : mstate (V:=VA)) (b : mstate (V:=VB)) : Prop :=
  (forall k, In k written -> good (m_slots a k) /\ rel (m_slots a k) (m_slots b k)) /\
  Forall2 rel (m_out a) (m_out b).

(* the guard: every value the left run writes into a slot is good *)
Fixpoint all_good (ops : list (op I)) (a : mstate (V:=VA)) : Prop :=
  match ops with
  | [] => True
  | o :: rest =>
      let a' := step semA inputsA a o in
      match op_out o with
      | Some k => good (m_slots a' k)
      | None => True
      end /\ all_good rest a'
  end.

(* a tape only reads slots it has written (register tapes and SSA tapes alike) *)
Fixpoint reads_written (ops : list (op I)) (written : list nat) : Prop :=
  match ops with
  | [] => True
  | o :: rest =>
      (forall k, In k (op_args o) -> In k written) /\
      reads_written rest (match op_out o with Some k => k :: written | None => written end)
  end.

Lemma nth_rel i : rel (nth i inputsA (s_dflt semA)) (nth i inputsB (s_dflt semB)).
Proof.
  revert i. induction Hin as [|x y la lb Hxy Hl IH]; intros [|i]; simpl; auto.
Qed.

Lemma forall2_upd (la : list VA) (lb : list VB) k x y :
  Forall2 rel la lb -> rel x y -> Forall2 rel (list_upd la k x) (list_upd lb k y).
Proof.
  intros H. revert k. induction H as [|a b la lb Hab Hl IH]; intros [|k] Hxy; simpl; constructor; auto.
Qed.

Lemma srel_set written a b k x y :
  srel written a b -> good x -> rel x y ->
  srel (k :: written) (set_slot a k x) (set_slot b k y).
Proof.
  intros [Hs Ho] Hg Hr. split; [|exact Ho].
  intros j Hj. simpl. unfold upd. destruct (Nat.eqb j k) eqn:E; [auto|].
  destruct Hj as [<- | Hj]; [now rewrite Nat.eqb_refl in E | now apply Hs].
Qed.

Lemma step_related o written a b :
  srel written a b ->
  (forall k, In k (op_args o) -> In k written) ->
  match op_out o with Some k => good (m_slots (step semA inputsA a o) k) | None => True end ->
  srel (match op_out o with Some k => k :: written | None => written end)
       (step semA inputsA a o) (step semB inputsB b o).
Proof.
  intros Hs Hargs Hg. pose proof Hs as [Hsl Ho].
  destruct Hp as [Pimm Pun Prr Pri Pir].
  destruct o; simpl in *.
  - (* Output *)
    split; [exact Hsl|]. simpl. apply forall2_upd; [exact Ho|]. apply Hsl, Hargs. now left.
  - (* Input *)
    unfold upd in Hg; rewrite Nat.eqb_refl in Hg. apply srel_set; auto. apply nth_rel.
  - unfold upd in Hg; rewrite Nat.eqb_refl in Hg. apply srel_set; auto.
  - unfold upd in Hg; rewrite Nat.eqb_refl in Hg.
    destruct (Hsl arg (Hargs _ (or_introl eq_refl))) as [G R]. apply srel_set; auto.
  - destruct (Hsl lhs (Hargs _ (or_introl eq_refl))) as [G1 R1].
    destruct (Hsl rhs (Hargs _ (or_intror (or_introl eq_refl)))) as [G2 R2].
    assert (Hg' : good (s_rr semA b0 (m_slots a lhs) (m_slots a rhs))).
    { destruct (bop_has_choice b0); simpl in Hg; unfold upd in Hg; rewrite Nat.eqb_refl in Hg; exact Hg. }
    pose proof (srel_set written a b out _ _ Hs Hg' (Prr _ _ _ _ _ G1 G2 R1 R2 Hg')) as S.
    destruct (bop_has_choice b0); [|exact S]. destruct S as [S1 S2]. split; assumption.
  - destruct (Hsl arg (Hargs _ (or_introl eq_refl))) as [G R].
    assert (Hg' : good (s_ri semA b0 (m_slots a arg) imm)).
    { destruct (bop_has_choice b0); simpl in Hg; unfold upd in Hg; rewrite Nat.eqb_refl in Hg; exact Hg. }
    pose proof (srel_set written a b out _ _ Hs Hg' (Pri _ _ _ _ G R Hg')) as S.
    destruct (bop_has_choice b0); [|exact S]. destruct S as [S1 S2]. split; assumption.
  - destruct (Hsl arg (Hargs _ (or_introl eq_refl))) as [G R].
    unfold upd in Hg; rewrite Nat.eqb_refl in Hg. apply srel_set; auto.
  - destruct (Hsl mem (Hargs _ (or_introl eq_refl))) as [G R]. apply srel_set; auto.
  - destruct (Hsl reg (Hargs _ (or_introl eq_refl))) as [G R]. apply srel_set; auto.
Qed.

Lemma run_related ops : forall written a b,
  srel written a b -> reads_written ops written -> all_good ops a ->
  Forall2 rel (m_out (run_fwd semA inputsA ops a)) (m_out (run_fwd semB inputsB ops b)).
Proof.
  induction ops as [|o ops IH]; intros written a b Hs Hr Hg; unfold run_fwd in *; simpl.
  - exact (proj2 Hs).
  - destruct Hr as [Hargs Hr]. destruct Hg as [Hg1 Hg].
    exact (IH _ _ _ (step_related o written a b Hs Hargs Hg1) Hr Hg).
Qed.

(* tape root-first as stored *)
Theorem tape_related tape e0a e0b out0a out0b :
  Forall2 rel out0a out0b ->
  reads_written (rev tape) [] ->
  all_good (rev tape) (init_state e0a out0a) ->
  Forall2 rel (m_out (eval_tape semA tape inputsA e0a out0a)) (m_out (eval_tape semB tape inputsB e0b out0b)).
Proof.
  intros Ho Hr Hg. unfold eval_tape.
  apply (run_related _ [] _ _); [|exact Hr | exact Hg].
  split; [intros k [] | exact Ho].
Qed.

End Related.
