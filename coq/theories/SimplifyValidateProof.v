(* SimplifyValidateProof.v — soundness of the simplification validator. *)
From Coq Require Import List Bool Arith Lia.
From FV Require Import Ops Tape Validate ValidateProof SimplifyValidate.
Import ListNotations.

Section Sound.
Context {V I : Type}.
Variable ieqb : I -> I -> bool.
Hypothesis ieqb_sound : forall a b, ieqb a b = true -> a = b.
Variable sem : Sem V I.
Hypothesis copy_id : forall v, s_un sem UCopy v = v.
Variable inputs : list V.
Notation op := (Tape.op I).
Notation st := (mstate (V:=V)).

(* ---- when is a trace valid for this evaluation of the parent ---------------- *)
Definition choice_ok (s : st) (o : op) (c : tchoice) : Prop :=
  let v := m_slots s in
  match o, c with
  | OBinRR b _ l r, TLeft => s_rr sem b (v l) (v r) = v l
  | OBinRR b _ l r, TRight => s_rr sem b (v l) (v r) = v r
  | OBinRI b _ a imm, TLeft => s_ri sem b (v a) imm = v a
  | OBinRI b _ a imm, TRight => s_ri sem b (v a) imm = s_imm sem imm
  | _, _ => True
  end.

(* ops in evaluation order; entry j of the trace belongs to the j-th choice clause *)
Fixpoint valid_run (ops : list op) (s : st) (tr : list tchoice) : Prop :=
  match ops with
  | [] => True
  | o :: rest =>
      if op_has_choice o then
        match tr with
        | [] => False
        | c :: tr' => choice_ok s o c /\ valid_run rest (step sem inputs s o) tr'
        end
      else valid_run rest (step sem inputs s o) tr
  end.

Definition valid_at (parent : list op) (e0 : env) (out0 : list V) (tr : list tchoice) : Prop :=
  valid_run (rev parent) (init_state e0 out0) tr.

(* ---- values of defining ops -------------------------------------------------- *)
Definition opval (e : env (V:=V)) (o : op) : V :=
  match o with
  | OInput _ i => nth i inputs (s_dflt sem)
  | OCopyImm _ c => s_imm sem c
  | OUn u _ a => s_un sem u (e a)
  | OBinRR b _ l r => s_rr sem b (e l) (e r)
  | OBinRI b _ a c => s_ri sem b (e a) c
  | OBinIR b _ a c => s_ir sem b c (e a)
  | _ => s_dflt sem
  end.

Definition defining (o : op) : bool :=
  match o with OOutput _ _ | OLoad _ _ | OStore _ _ => false | _ => true end.

Lemma step_defining (s : st) (o : op) p :
  defining o = true -> op_out o = Some p ->
  m_slots (step sem inputs s o) = upd (m_slots s) p (opval (m_slots s) o) /\
  m_out (step sem inputs s o) = m_out s.
Proof.
  destruct o; simpl; intros Hd Ho; try discriminate; injection Ho as <-;
    try (split; reflexivity);
    destruct (bop_has_choice b); split; reflexivity.
Qed.

Lemma opval_upd e c x o :
  existsb (Nat.eqb c) (op_args o) = false -> opval (upd e c x) o = opval e o.
Proof.
  intros H. unfold upd.
  destruct o; simpl in *; try reflexivity;
    repeat match goal with
    | H : (Nat.eqb ?a ?b || _) = false |- _ => apply orb_false_iff in H as [? ?]
    end;
    repeat match goal with
    | H : Nat.eqb c ?a = false |- _ => rewrite (Nat.eqb_sym a c), H; clear H
    end; reflexivity.
Qed.

(* ---- the simulation invariant ------------------------------------------------ *)
Definition agree (phi : pmap) (ep ec : env (V:=V)) : Prop :=
  forall p c, phi p = Some c -> ec c = ep p.
Definition rep_ok (rep : rmap) (ec : env (V:=V)) : Prop :=
  forall c r, rep c = Some r -> ec c = ec r.
Definition av_ok (av : list op) (ec : env (V:=V)) : Prop :=
  forall co, In co av -> defining co = true /\ exists c, op_out co = Some c /\ ec c = opval ec co.

Record sim (phi : pmap) (rep : rmap) (av : list op) (sp sc : st) : Prop := {
  sim_agree : agree phi (m_slots sp) (m_slots sc);
  sim_rep : rep_ok rep (m_slots sc);
  sim_av : av_ok av (m_slots sc);
  sim_out : m_out sp = m_out sc;
}.

Lemma same_child_sound rep ec a b : rep_ok rep ec -> same_child rep a b = true -> ec a = ec b.
Proof.
  unfold same_child; intros Hr H. apply orb_true_iff in H as [H|H].
  - apply Nat.eqb_eq in H; now subst.
  - destruct (rep a) as [x|] eqn:Ea; [|discriminate]. destruct (rep b) as [y|] eqn:Eb; [|discriminate].
    apply Nat.eqb_eq in H; subst y. rewrite (Hr _ _ Ea), (Hr _ _ Eb). reflexivity.
Qed.

Lemma pm_is_sound phi rep ep ec p c :
  agree phi ep ec -> rep_ok rep ec -> pm_is phi rep p c = true -> ec c = ep p.
Proof.
  unfold pm_is; intros Ha Hr H. destruct (phi p) as [w|] eqn:E; [|discriminate].
  rewrite <- (Ha _ _ E). symmetry. exact (same_child_sound _ _ _ _ Hr H).
Qed.

(* the child (re)defines variable c *)
Lemma agree_kill phi ep ec c x : agree phi ep ec -> agree (pm_kill phi c) ep (upd ec c x).
Proof.
  intros Ha q w. unfold pm_kill, upd. destruct (phi q) as [w'|] eqn:E; [|discriminate].
  destruct (Nat.eqb w' c) eqn:Ec; [discriminate|]. intros [= <-]. rewrite Ec. now apply Ha.
Qed.

Lemma rep_def_ok rep ec c x : rep_ok rep ec -> rep_ok (rep_def rep c) (upd ec c x).
Proof.
  intros Hr q r. unfold rep_def, upd. destruct (Nat.eqb q c) eqn:Eq.
  - intros [= <-]. now rewrite Nat.eqb_refl.
  - destruct (rep q) as [r'|] eqn:E; [|discriminate].
    destruct (Nat.eqb r' c) eqn:Er; [discriminate|]. intros [= <-]. rewrite Er. now apply Hr.
Qed.

Lemma rep_copy_ok rep ec c src : rep_ok rep ec -> rep_ok (rep_copy rep c src) (upd ec c (ec src)).
Proof.
  intros Hr. unfold rep_copy.
  set (r := match rep src with Some r => r | None => src end).
  assert (Hsrc : ec src = ec r).
  { unfold r. destruct (rep src) as [r0|] eqn:E; [now apply Hr | reflexivity]. }
  destruct (Nat.eqb r c) eqn:Erc; [apply rep_def_ok, Hr|].
  intros q r'. unfold upd. destruct (Nat.eqb q c) eqn:Eq.
  - intros [= <-]. rewrite Erc. exact Hsrc.
  - destruct (rep q) as [r''|] eqn:E; [|discriminate].
    destruct (Nat.eqb r'' c) eqn:Er; [discriminate|]. intros [= <-]. rewrite Er. now apply Hr.
Qed.

Lemma mentions_false c (o : op) :
  mentions c o = false ->
  existsb (Nat.eqb c) (op_args o) = false /\ (forall x, op_out o = Some x -> Nat.eqb x c = false).
Proof.
  unfold mentions; intros H. apply orb_false_iff in H as [Ha Ho]. split; [exact Ha|].
  intros x Hx. rewrite Hx in Ho. now rewrite Nat.eqb_sym.
Qed.

Lemma av_kill_ok av ec c x : av_ok av ec -> av_ok (av_kill av c) (upd ec c x).
Proof.
  intros Hav co Hin. unfold av_kill in Hin. apply filter_In in Hin as [Hin Hm].
  apply negb_true_iff in Hm. destruct (mentions_false _ _ Hm) as [Hargs Hout].
  destruct (Hav _ Hin) as (Hd & c0 & Ho & Hv). split; [exact Hd|]. exists c0. split; [exact Ho|].
  rewrite (opval_upd _ _ _ _ Hargs). unfold upd. rewrite (Hout _ Ho). exact Hv.
Qed.

Lemma av_add_ok av ec co c :
  av_ok av ec -> defining co = true -> op_out co = Some c ->
  av_ok (av_add av co c) (upd ec c (opval ec co)).
Proof.
  intros Hav Hd Ho. unfold av_add.
  destruct (existsb (Nat.eqb c) (op_args co)) eqn:Eargs; [apply av_kill_ok, Hav|].
  intros co' [<- | Hin].
  - split; [exact Hd|]. exists c. split; [exact Ho|].
    rewrite (opval_upd _ _ _ _ Eargs). unfold upd. now rewrite Nat.eqb_refl.
  - exact (av_kill_ok _ _ _ _ Hav co' Hin).
Qed.

(* the parent defines variable p *)
Lemma agree_alias phi ep ec p tgt x :
  agree phi ep ec -> (forall w, tgt = Some w -> ec w = x) ->
  agree (pm_alias phi p tgt) (upd ep p x) ec.
Proof.
  intros Ha Ht q w. unfold pm_alias, upd.
  destruct (Nat.eqb q p) eqn:Eq; [apply Ht | apply Ha].
Qed.

Lemma agree_bind phi ep ec p c x :
  agree phi ep ec -> agree (pm_bind phi p c) (upd ep p x) (upd ec c x).
Proof.
  intros Ha q w. unfold pm_bind, upd.
  destruct (Nat.eqb q p) eqn:Eq.
  - intros [= <-]. now rewrite Nat.eqb_refl.
  - intros H. pose proof (agree_kill _ _ _ c x Ha q w H) as E. unfold upd in E. exact E.
Qed.

Lemma same_op_sound phi rep ep ec po co c :
  same_op ieqb phi rep po co = Some c -> agree phi ep ec -> rep_ok rep ec ->
  defining co = true /\ op_out co = Some c /\ opval ec co = opval ep po.
Proof.
  intros H Ha Hr. destruct po, co; simpl in H; try discriminate.
  - destruct (Nat.eqb i i0) eqn:E; [|discriminate]. injection H as <-.
    apply Nat.eqb_eq in E; subst. repeat split.
  - destruct (ieqb imm imm0) eqn:E; [|discriminate]. injection H as <-.
    apply ieqb_sound in E; subst. repeat split.
  - destruct (uop_eqb u u0) eqn:Eu; simpl in H; [|discriminate].
    destruct (pm_is phi rep arg arg0) eqn:Ep; [|discriminate]. injection H as <-.
    apply uop_eqb_eq in Eu; subst. simpl. rewrite (pm_is_sound _ _ _ _ _ _ Ha Hr Ep). repeat split.
  - destruct (bop_eqb b b0) eqn:Eb; simpl in H; [|discriminate].
    destruct (pm_is phi rep lhs lhs0) eqn:El; simpl in H; [|discriminate].
    destruct (pm_is phi rep rhs rhs0) eqn:Er; [|discriminate]. injection H as <-.
    apply bop_eqb_eq in Eb; subst. simpl.
    rewrite (pm_is_sound _ _ _ _ _ _ Ha Hr El), (pm_is_sound _ _ _ _ _ _ Ha Hr Er). repeat split.
  - destruct (bop_eqb b b0) eqn:Eb; simpl in H; [|discriminate].
    destruct (pm_is phi rep arg arg0) eqn:Ep; simpl in H; [|discriminate].
    destruct (ieqb imm imm0) eqn:Ei; [|discriminate]. injection H as <-.
    apply bop_eqb_eq in Eb; subst. apply ieqb_sound in Ei; subst. simpl.
    rewrite (pm_is_sound _ _ _ _ _ _ Ha Hr Ep). repeat split.
  - destruct (bop_eqb b b0) eqn:Eb; simpl in H; [|discriminate].
    destruct (pm_is phi rep arg arg0) eqn:Ep; simpl in H; [|discriminate].
    destruct (ieqb imm imm0) eqn:Ei; [|discriminate]. injection H as <-.
    apply bop_eqb_eq in Eb; subst. apply ieqb_sound in Ei; subst. simpl.
    rewrite (pm_is_sound _ _ _ _ _ _ Ha Hr Ep). repeat split.
Qed.

Lemma av_find_sound phi rep ep ec po av c :
  av_find ieqb phi rep po av = Some c -> agree phi ep ec -> rep_ok rep ec -> av_ok av ec ->
  ec c = opval ep po.
Proof.
  induction av as [|co av IH]; simpl; intros H Ha Hr Hav; [discriminate|].
  destruct (same_op ieqb phi rep po co) as [c'|] eqn:Es.
  - injection H as <-. destruct (same_op_sound _ _ _ _ _ _ _ Es Ha Hr) as (_ & Ho & Hv).
    destruct (Hav co (or_introl eq_refl)) as (_ & c0 & Ho' & Hv'). rewrite Ho in Ho'. injection Ho' as <-.
    now rewrite Hv'.
  - apply IH; auto. intros co' Hin. apply Hav. now right.
Qed.

(* ---- eating child copies ----------------------------------------------------- *)
Lemma eat_sound child : forall phi rep av child1 phi1 rep1 av1 sp sc,
  eat_copies child phi rep av = (child1, phi1, rep1, av1) ->
  sim phi rep av sp sc ->
  exists sc1, sim phi1 rep1 av1 sp sc1 /\
              run_fwd sem inputs child sc = run_fwd sem inputs child1 sc1.
Proof.
  induction child as [|co child IH]; intros phi rep av child1 phi1 rep1 av1 sp sc He Hs.
  - simpl in He. injection He as <- <- <- <-. exists sc. split; [exact Hs | reflexivity].
  - simpl in He.
    assert (Hstop : (co :: child, phi, rep, av) = (child1, phi1, rep1, av1) ->
            exists sc1, sim phi1 rep1 av1 sp sc1 /\
              run_fwd sem inputs (co :: child) sc = run_fwd sem inputs child1 sc1).
    { intros E. injection E as <- <- <- <-. exists sc. split; [exact Hs | reflexivity]. }
    destruct co; try (apply Hstop; exact He).
    destruct u; try (apply Hstop; exact He).
    (* CopyReg out arg *)
    destruct Hs as [Ha Hr Hav Ho].
    destruct (IH _ _ _ _ _ _ _ sp (step sem inputs sc (OUn UCopy out arg)) He) as (sc1 & Hs1 & Hrun).
    { destruct (step_defining sc (OUn UCopy out arg) out eq_refl eq_refl) as [Es Eo].
      cbn [opval] in Es. rewrite copy_id in Es.
      constructor.
      - rewrite Es. apply agree_kill, Ha.
      - rewrite Es. apply rep_copy_ok, Hr.
      - rewrite Es. apply av_kill_ok, Hav.
      - now rewrite Eo. }
    exists sc1. split; [exact Hs1|]. unfold run_fwd at 1; simpl. exact Hrun.
Qed.

(* ---- one parent op ----------------------------------------------------------- *)
Definition step_result (child child' : list op) (phi' : pmap) (rep' : rmap) (av' : list op) (sp' sc : st) : Prop :=
  (child' = child /\ sim phi' rep' av' sp' sc) \/
  (exists co, child = co :: child' /\ sim phi' rep' av' sp' (step sem inputs sc co)).

Lemma sv_plain_sound po po' p child tr phi rep av child' tr' phi' rep' av' sp sc :
  defining po = true -> op_out po = Some p ->
  defining po' = true -> opval (m_slots sp) po' = opval (m_slots sp) po ->
  sv_plain ieqb po' p child tr phi rep av = Next child' tr' phi' rep' av' ->
  sim phi rep av sp sc ->
  tr' = tr /\ step_result child child' phi' rep' av' (step sem inputs sp po) sc.
Proof.
  intros Hd Ho Hd' Hval H [Ha Hr Hav Hout].
  destruct (step_defining sp po p Hd Ho) as [Es Eo].
  assert (Hreuse : Next child tr (pm_alias phi p (av_find ieqb phi rep po' av)) rep av
                   = Next child' tr' phi' rep' av' ->
          tr' = tr /\ step_result child child' phi' rep' av' (step sem inputs sp po) sc).
  { intros E. inversion E; subst. split; [reflexivity|]. left. split; [reflexivity|].
    constructor; [| exact Hr | exact Hav | congruence].
    rewrite Es. apply agree_alias; [exact Ha|]. intros w Hw.
    rewrite (av_find_sound _ _ _ _ _ _ _ Hw Ha Hr Hav). exact Hval. }
  unfold sv_plain in H. destruct child as [|co child0]; [exact (Hreuse H)|].
  destruct (same_op ieqb phi rep po' co) as [c|] eqn:Em; [|exact (Hreuse H)].
  inversion H; subst. split; [reflexivity|]. right. exists co. split; [reflexivity|].
  destruct (same_op_sound _ _ _ _ _ _ _ Em Ha Hr) as (Hdc & Hoc & Hv).
  destruct (step_defining sc co c Hdc Hoc) as [Esc Eoc].
  constructor.
  - rewrite Es, Esc, Hv, Hval. apply agree_bind, Ha.
  - rewrite Esc. apply rep_def_ok, Hr.
  - rewrite Esc. apply av_add_ok; assumption.
  - congruence.
Qed.

Lemma sv_side_sound po x p child tr phi rep av child' tr' phi' rep' av' sp sc :
  defining po = true -> op_out po = Some p ->
  opval (m_slots sp) po = m_slots sp x ->
  sv_side x p child tr phi rep av = Next child' tr' phi' rep' av' ->
  sim phi rep av sp sc ->
  tr' = tr /\ step_result child child' phi' rep' av' (step sem inputs sp po) sc.
Proof.
  intros Hd Ho Hval H [Ha Hr Hav Hout].
  destruct (step_defining sp po p Hd Ho) as [Es Eo].
  unfold sv_side in H. inversion H; subst. split; [reflexivity|]. left. split; [reflexivity|].
  constructor; [| exact Hr | exact Hav | congruence].
  rewrite Es, Hval. apply agree_alias; [exact Ha|]. intros w Hw. now apply Ha.
Qed.

Lemma sv_core_sound po child tr phi rep av child' tr' phi' rep' av' sp sc :
  sv_core ieqb po child tr phi rep av = Next child' tr' phi' rep' av' ->
  sim phi rep av sp sc ->
  (if op_has_choice po then match tr with [] => False | c :: t => choice_ok sp po c end else True) ->
  (if op_has_choice po then match tr with [] => False | _ :: t => tr' = t end else tr' = tr) /\
  step_result child child' phi' rep' av' (step sem inputs sp po) sc.
Proof.
  intros H Hs Htr.
  destruct po; simpl in H; try discriminate.
  - (* Output *)
    destruct child as [|co child0]; [discriminate|]. destruct co; try discriminate.
    destruct (pm_is phi rep arg arg0) eqn:Ep; simpl in H; [|discriminate].
    destruct (Nat.eqb i i0) eqn:Ei; [|discriminate].
    inversion H; subst. apply Nat.eqb_eq in Ei; subst i0.
    split; [reflexivity|]. right. eexists. split; [reflexivity|]. destruct Hs as [Ha Hr Hav Ho].
    constructor; simpl; [exact Ha | exact Hr | exact Hav |].
    rewrite (pm_is_sound _ _ _ _ _ _ Ha Hr Ep), Ho. reflexivity.
  - exact (sv_plain_sound (OInput out i) (OInput out i) out _ _ _ _ _ _ _ _ _ _ sp sc eq_refl eq_refl eq_refl eq_refl H Hs).
  - exact (sv_plain_sound (OCopyImm out imm) (OCopyImm out imm) out _ _ _ _ _ _ _ _ _ _ sp sc eq_refl eq_refl eq_refl eq_refl H Hs).
  - (* Un: CopyReg is an alias, anything else is plain *)
    assert (Hp : forall u', sv_plain ieqb (OUn u' out arg) out child tr phi rep av = Next child' tr' phi' rep' av' ->
            tr' = tr /\ step_result child child' phi' rep' av' (step sem inputs sp (OUn u' out arg)) sc).
    { intros u' H'. exact (sv_plain_sound (OUn u' out arg) (OUn u' out arg) out _ _ _ _ _ _ _ _ _ _ sp sc eq_refl eq_refl eq_refl eq_refl H' Hs). }
    destruct u; try (exact (Hp _ H)).
    simpl. eapply (sv_side_sound (OUn UCopy out arg) arg out); [reflexivity | reflexivity | simpl; apply copy_id | exact H | exact Hs].
  - (* BinRR *)
    simpl in Htr. cbn [op_has_choice]. destruct (bop_has_choice b) eqn:Eb.
    + destruct tr as [|c t]; [contradiction|].
      destruct c; try discriminate.
      * destruct (sv_side_sound (OBinRR b out lhs rhs) lhs out _ _ _ _ _ _ _ _ _ _ sp sc eq_refl eq_refl Htr H Hs) as [-> R]; split; [reflexivity | exact R].
      * destruct (sv_side_sound (OBinRR b out lhs rhs) rhs out _ _ _ _ _ _ _ _ _ _ sp sc eq_refl eq_refl Htr H Hs) as [-> R]; split; [reflexivity | exact R].
      * destruct (sv_plain_sound (OBinRR b out lhs rhs) (OBinRR b out lhs rhs) out _ _ _ _ _ _ _ _ _ _ sp sc eq_refl eq_refl eq_refl eq_refl H Hs) as [-> R]; split; [reflexivity | exact R].
    + exact (sv_plain_sound (OBinRR b out lhs rhs) (OBinRR b out lhs rhs) out _ _ _ _ _ _ _ _ _ _ sp sc eq_refl eq_refl eq_refl eq_refl H Hs).
  - (* BinRI *)
    simpl in Htr. cbn [op_has_choice]. destruct (bop_has_choice b) eqn:Eb.
    + destruct tr as [|c t]; [contradiction|].
      destruct c; try discriminate.
      * destruct (sv_side_sound (OBinRI b out arg imm) arg out _ _ _ _ _ _ _ _ _ _ sp sc eq_refl eq_refl Htr H Hs) as [-> R]; split; [reflexivity | exact R].
      * (* Right: the value is the immediate *)
        destruct (sv_plain_sound (OBinRI b out arg imm) (OCopyImm out imm) out _ _ _ _ _ _ _ _ _ _ sp sc eq_refl eq_refl eq_refl (eq_sym Htr) H Hs) as [-> R]; split; [reflexivity | exact R].
      * destruct (sv_plain_sound (OBinRI b out arg imm) (OBinRI b out arg imm) out _ _ _ _ _ _ _ _ _ _ sp sc eq_refl eq_refl eq_refl eq_refl H Hs) as [-> R]; split; [reflexivity | exact R].
    + exact (sv_plain_sound (OBinRI b out arg imm) (OBinRI b out arg imm) out _ _ _ _ _ _ _ _ _ _ sp sc eq_refl eq_refl eq_refl eq_refl H Hs).
  - exact (sv_plain_sound (OBinIR b out arg imm) (OBinIR b out arg imm) out _ _ _ _ _ _ _ _ _ _ sp sc eq_refl eq_refl eq_refl eq_refl H Hs).
Qed.

Lemma sv_sound parent : forall child tr phi rep av sp sc,
  sv ieqb parent child tr phi rep av = true ->
  sim phi rep av sp sc ->
  valid_run parent sp tr ->
  m_out (run_fwd sem inputs parent sp) = m_out (run_fwd sem inputs child sc).
Proof.
  induction parent as [|po parent IH]; intros child tr phi rep av sp sc Hsv Hs Hv.
  - simpl in Hsv.
    destruct (eat_copies child phi rep av) as [[[child1 phi1] rep1] av1] eqn:Ee.
    destruct child1; [|discriminate].
    destruct (eat_sound _ _ _ _ _ _ _ _ sp sc Ee Hs) as (sc1 & Hs1 & Hrun).
    rewrite Hrun. exact (sim_out _ _ _ _ _ Hs1).
  - simpl in Hsv. unfold sv_step in Hsv.
    destruct (eat_copies child phi rep av) as [[[child1 phi1] rep1] av1] eqn:Ee.
    destruct (eat_sound _ _ _ _ _ _ _ _ sp sc Ee Hs) as (sc1 & Hs1 & Hrun).
    destruct (sv_core ieqb po child1 tr phi1 rep1 av1) as [|child' tr' phi' rep' av'] eqn:Est; [discriminate|].
    simpl in Hv.
    assert (Hpre : if op_has_choice po then match tr with [] => False | c :: t => choice_ok sp po c end else True).
    { destruct (op_has_choice po); [|exact Logic.I]. destruct tr as [|c t]; [exact Hv | exact (proj1 Hv)]. }
    destruct (sv_core_sound _ _ _ _ _ _ _ _ _ _ _ sp sc1 Est Hs1 Hpre) as [Htr R].
    assert (Hv' : valid_run parent (step sem inputs sp po) tr').
    { destruct (op_has_choice po).
      - destruct tr as [|c t]; [contradiction|]. subst tr'. exact (proj2 Hv).
      - subst tr'. exact Hv. }
    rewrite Hrun.
    assert (Hp : run_fwd sem inputs (po :: parent) sp = run_fwd sem inputs parent (step sem inputs sp po)) by reflexivity.
    rewrite Hp.
    destruct R as [[-> Hs'] | (co & -> & Hs')].
    + exact (IH _ _ _ _ _ _ _ Hsv Hs' Hv').
    + assert (Hc : run_fwd sem inputs (co :: child') sc1 = run_fwd sem inputs child' (step sem inputs sc1 co)) by reflexivity.
      rewrite Hc. exact (IH _ _ _ _ _ _ _ Hsv Hs' Hv').
Qed.

Theorem check_simplify_sound parent trace child :
  check_simplify ieqb parent trace child = true ->
  forall (e0 e0' : env) (out0 : list V),
    valid_at parent e0 out0 trace ->
    m_out (eval_tape sem parent inputs e0 out0) = m_out (eval_tape sem child inputs e0' out0).
Proof.
  intros Hc e0 e0' out0 Hv. unfold eval_tape.
  apply (sv_sound _ _ _ _ _ _ _ _ Hc); [|exact Hv].
  constructor; simpl; [intros p c; discriminate | intros c r; discriminate | intros co [] | reflexivity].
Qed.

End Sound.
