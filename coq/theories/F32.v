(* F32.v — IEEE-754 binary32 as Flocq's BinarySingleNaN.binary_float 24 128,
   with the operations of fidget-core/src/types/float.rs, context/op.rs
   (UnaryOpcode::eval / BinaryOpcode::eval) and rng/mod.rs.

   Model only: no proofs in this file except the two precision facts the Flocq
   operations need as implicit arguments. *)
From Coq Require Import ZArith List Bool Lia.
From Flocq Require Import Core.Zaux Core.FLX.
From Flocq Require IEEE754.Binary IEEE754.Bits.
From Flocq Require Import IEEE754.BinarySingleNaN.
Import ListNotations.
Open Scope Z_scope.

Definition f32 : Type := binary_float 24 128.

Lemma Hprec : FLX.Prec_gt_0 24. Proof. unfold FLX.Prec_gt_0; lia. Qed.
Lemma Hmax : Prec_lt_emax 24 128. Proof. unfold Prec_lt_emax; lia. Qed.

(* ---- bits in / bits out ---------------------------------------------------- *)
Definition of_bits (z : Z) : f32 := Binary.B2BSN 24 128 (Bits.b32_of_bits (z mod 4294967296)).

Definition to_bits (f : f32) : Z :=
  match f with
  | B754_zero s => if s then 2147483648 else 0
  | B754_infinity s => if s then 4286578688 else 2139095040
  | B754_nan => 2143289344 (* 0x7fc00000: every NaN is printed canonically *)
  | B754_finite s m e _ =>
      let m := Zpos m in
      let mag := if m <? 8388608 then m else (e + 150) * 8388608 + (m - 8388608) in
      if s then 2147483648 + mag else mag
  end.

(* ---- constants -------------------------------------------------------------- *)
Definition fzero : f32 := B754_zero false.
Definition fnzero : f32 := B754_zero true.
Definition fnan : f32 := B754_nan.
Definition fone : f32 := of_bits 1065353216.   (* 0x3f800000 *)
Definition fnone : f32 := of_bits 3212836864.  (* 0xbf800000 *)
Definition finf : f32 := B754_infinity false.
Definition fninf : f32 := B754_infinity true.

(* ---- arithmetic ------------------------------------------------------------- *)
Definition fadd (a b : f32) : f32 := Bplus (prec_gt_0_:=Hprec) (prec_lt_emax_:=Hmax) mode_NE a b.
Definition fsub (a b : f32) : f32 := Bminus (prec_gt_0_:=Hprec) (prec_lt_emax_:=Hmax) mode_NE a b.
Definition fmul (a b : f32) : f32 := Bmult (prec_gt_0_:=Hprec) (prec_lt_emax_:=Hmax) mode_NE a b.
Definition fdiv (a b : f32) : f32 := Bdiv (prec_gt_0_:=Hprec) (prec_lt_emax_:=Hmax) mode_NE a b.
Definition fsqrt (a : f32) : f32 := Bsqrt (prec_gt_0_:=Hprec) (prec_lt_emax_:=Hmax) mode_NE a.
Definition fneg (a : f32) : f32 := Bopp a.
Definition fabs (a : f32) : f32 := Babs a.
Definition ffloor (a : f32) : f32 := Bnearbyint (prec_lt_emax_:=Hmax) mode_DN a.
Definition fceil (a : f32) : f32 := Bnearbyint (prec_lt_emax_:=Hmax) mode_UP a.
Definition fround (a : f32) : f32 := Bnearbyint (prec_lt_emax_:=Hmax) mode_NA a.

Definition is_nanb (a : f32) : bool := is_nan a.
Definition fltb (a b : f32) : bool := Bltb a b.   (* a < b, false on NaN *)
Definition fleb (a b : f32) : bool := Bleb a b.
Definition feqb (a b : f32) : bool := Beqb a b.   (* IEEE ==: +0 == -0, NaN != NaN *)
Definition fgtb (a b : f32) : bool := Bltb b a.
Definition fgeb (a b : f32) : bool := Bleb b a.
Definition is_zerob (a : f32) : bool := feqb a fzero.
Definition is_finiteb (a : f32) : bool := is_finite a.
Definition is_infb (a : f32) : bool := match a with B754_infinity _ => true | _ => false end.
Definition signb (a : f32) : bool := Bsign a.      (* sign bit; false for NaN *)

Definition of_bool (b : bool) : f32 := if b then fone else fzero.

(* f32::min / f32::max of the Rust standard library (NaN-ignoring).  The sign of
   zero for equal zeros is platform dependent; the model returns the first. *)
Definition fmin_std (a b : f32) : f32 :=
  if is_nanb a then b else if is_nanb b then a else if fltb b a then b else a.
Definition fmax_std (a b : f32) : f32 :=
  if is_nanb a then b else if is_nanb b then a else if fltb a b then b else a.

(* ---- float.rs --------------------------------------------------------------- *)
Inductive choice := CUnknown | CLeft | CRight | CBoth.

Definition choice_eqb (a b : choice) : bool :=
  match a, b with
  | CUnknown, CUnknown | CLeft, CLeft | CRight, CRight | CBoth, CBoth => true
  | _, _ => false
  end.

(* BitOrAssign of vm/choice.rs *)
Definition choice_or (a b : choice) : choice :=
  match a, b with
  | CUnknown, x | x, CUnknown => x
  | CLeft, CLeft => CLeft
  | CRight, CRight => CRight
  | _, _ => CBoth
  end.

Definition fcompare (a b : f32) : f32 :=
  match Bcompare a b with
  | Some Lt => fnone
  | Some Eq => fzero
  | Some Gt => fone
  | None => fnan
  end.

Definition fmax_choice (a b : f32) : f32 * choice :=
  if fgtb a b then (a, CLeft)
  else if fgtb b a then (b, CRight)
  else (if is_nanb a || is_nanb b then fnan else if negb (signb a) then a else b, CBoth).

Definition fmin_choice (a b : f32) : f32 * choice :=
  if fltb a b then (a, CLeft)
  else if fltb b a then (b, CRight)
  else (if is_nanb a || is_nanb b then fnan else if signb a then a else b, CBoth).

Definition fand_choice (a b : f32) : f32 * choice :=
  if is_zerob a then (a, CLeft) else (b, CRight).

Definition for_choice (a b : f32) : f32 * choice :=
  if negb (is_zerob a) then (a, CLeft) else (b, CRight).

Definition fnot (a : f32) : f32 := of_bool (is_zerob a).

(* ---- rng/mod.rs on u32 ------------------------------------------------------ *)
Definition u32 (z : Z) : Z := z mod 4294967296.
Definition rng_hash (v : Z) : Z :=
  let state := u32 (u32 (v * 747796405) + 2891336453) in
  let word := u32 (Z.lxor (Z.shiftr state (Z.shiftr state 28 + 4)) state * 277803737) in
  Z.lxor (Z.shiftr word 22) word.
Definition rng_rand (seed : Z) : f32 :=
  let h := rng_hash seed in
  fsub (of_bits (Z.lor (Z.shiftr h 9) 1065353216)) fone.
Definition rng_mix (a b : Z) : Z := rng_hash (u32 (a + rng_hash b)).

Definition frand (a : f32) : f32 := rng_rand (to_bits a).
Definition fmix (a b : f32) : f32 := of_bits (rng_mix (to_bits a) (to_bits b)).

(* ---- libm and rem_euclid: an oracle, never an axiom -------------------------- *)
Inductive libm_fn := LSin | LCos | LTan | LAsin | LAcos | LAtan | LExp | LLn | LAtan2 | LRemEuclid.
Definition libm_id (f : libm_fn) : Z :=
  match f with
  | LSin => 0 | LCos => 1 | LTan => 2 | LAsin => 3 | LAcos => 4 | LAtan => 5
  | LExp => 6 | LLn => 7 | LAtan2 => 8 | LRemEuclid => 9
  end.
(* The oracle receives and returns bit patterns. *)
Definition oracle := Z -> Z -> Z -> Z.   (* fn id, arg0 bits, arg1 bits (0 if unary) *)
Definition libm1 (o : oracle) (f : libm_fn) (a : f32) : f32 := of_bits (o (libm_id f) (to_bits a) 0).
Definition libm2 (o : oracle) (f : libm_fn) (a b : f32) : f32 := of_bits (o (libm_id f) (to_bits a) (to_bits b)).

(* ---- binary64, as far as Interval::quadrant needs it ---------------------------------- *)
Definition f64 : Type := binary_float 53 1024.
Lemma Hprec64 : FLX.Prec_gt_0 53. Proof. unfold FLX.Prec_gt_0; lia. Qed.
Lemma Hmax64 : Prec_lt_emax 53 1024. Proof. unfold Prec_lt_emax; lia. Qed.
(* f64::from(f32): exact *)
Definition to64 (x : f32) : f64 :=
  match x with
  | B754_zero s => B754_zero s
  | B754_infinity s => B754_infinity s
  | B754_nan => B754_nan
  | B754_finite s m e _ => binary_normalize 53 1024 Hprec64 Hmax64 mode_NE (if s then Zneg m else Zpos m) e false
  end.
Definition d64_of_bits (z : Z) : f64 := Binary.B2BSN 53 1024 (Bits.b64_of_bits (z mod 18446744073709551616)).
Definition pi64 : f64 := d64_of_bits 4614256656552045848.     (* 0x400921FB54442D18 *)
Definition two64 : f64 := d64_of_bits 4611686018427387904.    (* 2.0 *)
(* (f64::from(angle) * 2.0 / PI).floor().rem_euclid(4.0) as u8 *)
Definition quad64 (x : f32) : Z :=
  let q := Bnearbyint (prec_lt_emax_:=Hmax64) mode_DN
             (Bdiv (prec_gt_0_:=Hprec64) (prec_lt_emax_:=Hmax64) mode_NE
                (Bmult (prec_gt_0_:=Hprec64) (prec_lt_emax_:=Hmax64) mode_NE (to64 x) two64) pi64) in
  match q with
  | B754_finite s m e _ =>
      let v := if (0 <=? e)%Z then (Zpos m * 2 ^ e)%Z else (Zpos m / 2 ^ (- e))%Z in
      ((if s then - v else v) mod 4)%Z
  | _ => 0%Z
  end.
