(* AllocOps.v — specifications of the composite allocator operations
   (get_out_reg, op_reg_fn, op_reg_reg, op_out_only, op_output), physical
   invariant + semantic simulation step. *)
From Coq Require Import List Bool Arith Lia.
From FV Require Import Ops Tape Lru Alloc LruProof AllocSem AllocInv.
Import ListNotations.

Section Ops.
Context {V I : Type}.
Variable sem : Sem V I.
Variable inputs : list V.
Variables n size : nat.
Hypothesis Hn : 1 <= n.
Notation ast := (ast I).
Notation op := (Tape.op I).
Notation PInv := (@PInv I n size).
Notation sim := (@sim V I sem inputs).
Notation def_corr := (@def_corr V I sem inputs).
Notation op_ok := (@op_ok I n).

Notation "x <- m ;; f" := (bind m (fun x => f)) (at level 61, m at next level, right associativity).
Notation "m ;;; f" := (bind m (fun _ => f)) (at level 61, right associativity).

Definition SimStep (s s' : ast) : Prop :=
  forall ssa, sim ssa (a_out s) (allocf s) -> sim ssa (a_out s') (allocf s').

Lemma SimStep_refl s : SimStep s s.
Proof. intros ssa H; exact H. Qed.

Lemma SimStep_trans s1 s2 s3 : SimStep s1 s2 -> SimStep s2 s3 -> SimStep s1 s3.
Proof. intros H1 H2 ssa H. apply H2, H1, H. Qed.

Lemma SimStep_same s s' : allocf s' = allocf s -> a_out s' = a_out s -> SimStep s s'.
Proof. intros Ea Eo ssa H. rewrite Ea, Eo. exact H. Qed.

(* distinct variables live in distinct locations (no stale entries) *)
Lemma alloc_inj s H ord v w l : PInv s H [] ord ->
  allocf s v = Some l -> allocf s w = Some l -> v = w.
Proof.
  intros P Hv Hw. destruct (pi_ra _ _ _ _ _ _ P) as (R1 & R2 & R3).
  destruct (pi_mm _ _ _ _ _ _ P) as (M1 & M2 & M3 & M4 & M5 & M6).
  destruct (Nat.lt_ge_cases l n) as [Hl|Hl].
  - pose proof (R2 _ _ Hv Hl). pose proof (R2 _ _ Hw Hl). congruence.
  - eapply M5; eauto.
Qed.

Lemma regf_allocf s H St ord r v : PInv s H St ord -> regf s r = Some v ->
  allocf s v = Some r /\ r < n /\ v < size.
Proof.
  intros P Hr. destruct (pi_ra _ _ _ _ _ _ P) as (R1 & R2 & R3).
  destruct (R1 _ _ Hr). repeat split; eauto.
Qed.

Lemma allocf_regf s H St ord r v : PInv s H St ord -> allocf s v = Some r -> r < n ->
  regf s r = Some v.
Proof. intros P Hr Hl. destruct (pi_ra _ _ _ _ _ _ P) as (R1 & R2 & R3). auto. Qed.

Lemma held_none s H St ord r : PInv s H St ord -> In r H -> regf s r = None /\ r < n.
Proof.
  intros P Hr. destruct (pi_sp _ _ _ _ _ _ P) as (S1 & S2 & S3 & S4).
  destruct (S3 _ Hr). auto.
Qed.

(* ---------- get_register, composite-friendly ---------- *)
Record GRP (s s' : ast) (H ord ord' : list nat) (r : nat) : Prop := {
  gr_inv : PInv s' (r :: H) [] ord';
  gr_recent : In r (firstn 1 ord');
  gr_age : forall k x, In x (firstn k ord) -> In x (firstn (S k) ord');
  gr_sim : SimStep s s';
  gr_dom : forall v, allocf s' v = None <-> allocf s v = None;
  gr_mem : forall v l, allocf s v = Some l -> n <= l -> allocf s' v = Some l;
  gr_reg : forall x w, regf s x = Some w -> x <> r -> regf s' x = Some w;
  gr_src : regf s r = None \/ r = last ord 0;
  gr_notin : ~ In r H
}.

Lemma get_register_post s H ord : PInv s H [] ord ->
  match get_register s with
  | Ok (r, s') => exists ord', GRP s s' H ord ord' r
  | Err _ => In (last ord 0) H
  end.
Proof.
  intros P. pose proof (get_register_spec n size Hn s H ord P) as G.
  destruct (get_register s) as [[r s']|c]; [|exact G].
  destruct G as (ord' & P' & Hrec & Hage & Hcase). exists ord'.
  destruct Hcase as [(Hnone & HnH & Ea & Er & Eo)|(Elast & prev & mem & Hr & Hm & Hfresh & Ea & Er & Eo)].
  - constructor; auto.
    + apply SimStep_same; auto.
    + intros v. rewrite Ea. tauto.
    + intros v l. rewrite Ea. auto.
    + intros x w. rewrite Er. auto.
  - assert (HnH : ~ In r H).
    { intros Hc. destruct (held_none _ _ _ _ _ P Hc). congruence. }
    destruct (regf_allocf _ _ _ _ _ _ P Hr) as (Hp & Hrn & Hps).
    constructor; auto.
    + intros ssa S. rewrite Eo. eapply sim_load; [exact S|].
      intros v l Hv. rewrite Ea. eqb_case l r.
      * pose proof (allocf_regf _ _ _ _ _ _ P Hv Hrn) as Hr'.
        assert (v = prev) by congruence. subst. now rewrite Nat.eqb_refl.
      * eqb_case v prev; [congruence|exact Hv].
    + intros v. rewrite Ea. eqb_case v prev; [|tauto]. split; congruence.
    + intros v l Hv Hl. rewrite Ea. eqb_case v prev; [|exact Hv].
      rewrite Hp in Hv. injection Hv as <-. lia.
    + intros x w Hx Hne. rewrite Er. eqb_case x r; [congruence|exact Hx].
Qed.

(* the evicted/obtained register is not one of the recently used bound ones *)
Lemma fresh_not_recent s H ord r x w k : PInv s H [] ord ->
  regf s r = None \/ r = last ord 0 ->
  regf s x = Some w -> In x (firstn k ord) -> k < n -> r <> x.
Proof.
  intros P Hsrc Hx Hrec Hk ->. destruct Hsrc as [Hc|Hc]; [congruence|].
  pose proof (pi_lru _ _ _ _ _ _ P) as R.
  apply (last_not_recent ord k (lr_nd _ _ _ R)); [rewrite (lr_len _ _ _ R); exact Hk|].
  rewrite <- Hc. exact Hrec.
Qed.

Lemma remove_cons_eq x l : remove Nat.eq_dec x (x :: l) = remove Nat.eq_dec x l.
Proof. simpl. destruct (Nat.eq_dec x x); congruence. Qed.
Lemma remove_cons_neq x y l : x <> y ->
  remove Nat.eq_dec x (y :: l) = y :: remove Nat.eq_dec x l.
Proof. intros H. simpl. destruct (Nat.eq_dec x y); congruence. Qed.
Lemma remove_nil x : remove Nat.eq_dec x [] = [].
Proof. reflexivity. Qed.

Ltac simpl_remove :=
  repeat first [ rewrite remove_cons_eq | rewrite remove_cons_neq by congruence
               | rewrite remove_nil ].
Ltac simpl_remove_in H :=
  repeat first [ rewrite remove_cons_eq in H | rewrite remove_cons_neq in H by congruence
               | rewrite remove_nil in H ].

(* ---------- get_allocation, composite-friendly ---------- *)
Lemma get_allocation_post s H ord v : PInv s H [] ord -> v < size ->
  exists s' ord',
    get_allocation v s = Ok (alloc_class n (allocf s v), s') /\
    PInv s' H [] ord' /\ allocf s' = allocf s /\ regf s' = regf s /\ a_out s' = a_out s /\
    match allocf s v with
    | Some i => if Nat.ltb i n then ord' = a_poke i ord else ord' = ord
    | None => ord' = ord
    end.
Proof.
  intros P Hv. destruct (get_allocation_spec n size Hn s H [] ord v P Hv)
    as (s' & ord' & E & P' & Ea & Er & Eo & Eord).
  exists s', ord'. split; [exact E|]. split; [exact P'|]. split; [exact Ea|].
  split; [exact Er|]. split; [exact Eo|].
  destruct (allocf s v) as [i|]; [destruct (Nat.ltb i n)|]; exact Eord.
Qed.

(* ---------- get_out_reg ---------- *)
Record GOP (s s' : ast) (ord' : list nat) (out r : nat) : Prop := {
  go_inv : PInv s' [] [] ord';
  go_reg : regf s' r = Some out;
  go_recent : In r (firstn 1 ord');
  go_sim : SimStep s s';
  go_dom : forall v, allocf s' v = None <-> allocf s v = None
}.

Lemma get_out_reg_spec s ord out :
  PInv s [] [] ord -> out < size -> allocf s out <> None ->
  match get_out_reg out s with
  | Ok (r, s') => exists ord', GOP s s' ord' out r
  | Err _ => False
  end.
Proof.
  intros P Ho Hlive. unfold get_out_reg.
  destruct (get_allocation_post s [] ord out P Ho) as (s1 & ord1 & E1 & P1 & Ea1 & Er1 & Eo1 & Eord1).
  rewrite (bind_ok _ _ _ _ _ E1).
  destruct (allocf s out) as [i|] eqn:Eout; [|congruence]. unfold alloc_class.
  destruct (Nat.ltb i n) eqn:Ei.
  - (* already in a register *)
    apply Nat.ltb_lt in Ei. unfold ret. exists ord1. constructor; auto.
    + rewrite Er1. eapply allocf_regf; eauto.
    + rewrite Eord1. simpl. auto.
    + apply SimStep_same; auto.
    + intros v. rewrite Ea1. tauto.
  - (* in memory *)
    apply Nat.ltb_ge in Ei.
    pose proof (get_register_post s1 [] ord1 P1) as G.
    unfold bind at 1. destruct (get_register s1) as [[r s2]|c]; [|destruct G].
    destruct G as (ord2 & G).
    pose proof (gr_inv _ _ _ _ _ _ G) as P2.
    assert (Eout2 : allocf s2 out = Some i).
    { apply (gr_mem _ _ _ _ _ _ G); [rewrite Ea1; exact Eout|exact Ei]. }
    destruct (push_store_spec n size s2 [r] [] ord2 r i out P2 (or_introl eq_refl) Eout2 Ei
                ltac:(simpl; tauto))
      as (s3 & E3 & P3 & Ea3 & Er3 & Eo3 & _).
    rewrite (bind_ok _ _ _ _ _ E3).
    destruct (bind_register_spec n size Hn s3 [r] [out] ord2 out r P3 (or_introl eq_refl) Ho
                (or_intror (or_introl eq_refl)))
      as (s4 & E4 & P4 & Ea4 & Er4 & Eo4).
    rewrite (bind_ok _ _ _ _ _ E4). unfold ret.
    simpl_remove_in P4.
    exists ord2. constructor; auto.
    + rewrite Er4. now rewrite Nat.eqb_refl.
    + apply (gr_recent _ _ _ _ _ _ G).
    + eapply SimStep_trans; [apply SimStep_same; eauto|].
      eapply SimStep_trans; [apply (gr_sim _ _ _ _ _ _ G)|].
      intros ssa S. rewrite Eo4, Eo3. eapply sim_store; [exact S|].
      intros v l Hv. rewrite Ea4, Ea3. eqb_case l i.
      * assert (v = out) by (apply (alloc_inj s2 [r] ord2 v out i P2 Hv Eout2)).
        subst. now rewrite Nat.eqb_refl.
      * eqb_case v out; [congruence|exact Hv].
    + intros v. rewrite Ea4, Ea3. eqb_case v out.
      * split; [discriminate|]. rewrite Eout. discriminate.
      * rewrite (gr_dom _ _ _ _ _ _ G). rewrite Ea1. tauto.
Qed.

(* ---------- op-level postcondition ---------- *)
Definition OpPost (s s' : ast) (so : op) (o : option nat) (argvars : list nat) : Prop :=
  exists ord', PInv s' [] [] ord' /\
    (forall v, allocf s' v <> None <->
               (In v argvars \/ (Some v <> o /\ allocf s v <> None))) /\
    (forall ssa, sim ssa (a_out s) (allocf s) -> sim (so :: ssa) (a_out s') (allocf s')).

Lemma OpPost_pre s s1 s' so o argvars :
  SimStep s s1 -> (forall v, allocf s1 v = None <-> allocf s v = None) ->
  OpPost s1 s' so o argvars -> OpPost s s' so o argvars.
Proof.
  intros S D (ord' & P & Hd & Hs). exists ord'. split; [exact P|]. split.
  - intros v. rewrite Hd, D. tauto.
  - intros ssa H. apply Hs, S, H.
Qed.

Lemma push_post s H St ord o : PInv s H St ord -> op_ok (a_slot_count s) o ->
  exists s', push o s = Ok (tt, s') /\ PInv s' H St ord /\
    allocf s' = allocf s /\ regf s' = regf s /\ a_out s' = o :: a_out s.
Proof.
  intros P Ho. eexists. split; [reflexivity|]. split; [apply push_spec; assumption|].
  repeat split; reflexivity.
Qed.

Ltac ifs :=
  repeat match goal with
  | |- context [Nat.eqb ?a ?b] => eqb_case a b
  end; try congruence; try tauto.

(* T1: push op; release r_x *)
Lemma tail_release s ord so ro o r_x args :
  PInv s [] [] ord -> regf s r_x = Some o ->
  def_corr so ro o r_x args -> op_ok (a_slot_count s) ro ->
  (forall v r, In (v, r) args -> v <> o /\ allocf s v = Some r) ->
  exists s', (push ro ;;; release_reg r_x) s = Ok (tt, s') /\
    OpPost s s' so (Some o) (map fst args).
Proof.
  intros P Hrx D Hok Hargs.
  destruct (regf_allocf _ _ _ _ _ _ P Hrx) as (Hao & Hrxn & Hos).
  destruct (push_post s [] [] ord ro P Hok) as (s1 & E1 & P1 & Ea1 & Er1 & Eo1).
  rewrite (bind_ok _ _ _ _ _ E1).
  destruct (release_reg_spec n size Hn s1 [] [] ord r_x o P1 ltac:(rewrite Er1; exact Hrx))
    as (s2 & E2 & P2 & Ea2 & Er2 & Eo2).
  exists s2. split; [exact E2|]. exists ord. split; [exact P2|]. split.
  - intros v. rewrite Ea2, Ea1. split.
    + eqb_case v o; [congruence|]. intros Hv. right. split; [congruence|exact Hv].
    + intros [Hin|[Hvo Hv]].
      * apply in_map_iff in Hin. destruct Hin as ([v' r] & <- & Hin). simpl.
        destruct (Hargs _ _ Hin) as [Hne Hv]. eqb_case v' o; congruence.
      * eqb_case v o; congruence.
  - intros ssa S. rewrite Eo2, Eo1.
    eapply sim_tail0; [exact S|exact D|exact Hao| | |].
    + intros w Hw. apply (alloc_inj s [] ord w o r_x P Hw Hao).
    + intros v r Hin. destruct (Hargs _ _ Hin) as [Hne Hv]. rewrite Ea2, Ea1.
      eqb_case v o; congruence.
    + intros v l Hne Hv. rewrite Ea2, Ea1. eqb_case v o; congruence.
Qed.

Ltac vw :=
  repeat match goal with
  | E : forall j : nat, allocf ?t j = @?f j |- context [allocf ?t _] => rewrite E
  | E : allocf ?t = allocf _ |- context [allocf ?t] => rewrite E
  end.

(* T2: store; push op; release r_x; bind y r_a *)
Lemma tail_store_release_bind s ord so ro o r_x r_a y m_y args :
  PInv s [r_a] [] ord -> regf s r_x = Some o ->
  allocf s y = Some m_y -> n <= m_y -> y < size ->
  def_corr so ro o r_x args -> op_ok (a_slot_count s) ro ->
  (forall v r, In (v, r) args ->
     (v = y /\ r = r_a) \/ (v <> o /\ v <> y /\ allocf s v = Some r)) ->
  exists s', (push_store r_a m_y ;;; push ro ;;; release_reg r_x ;;; bind_register y r_a) s
             = Ok (tt, s') /\
    OpPost s s' so (Some o) (map fst args).
Proof.
  intros P Hrx Hy Hmy Hys D Hok Hargs.
  destruct (regf_allocf _ _ _ _ _ _ P Hrx) as (Hao & Hrxn & Hos).
  destruct (held_none _ _ _ _ _ P (or_introl eq_refl)) as [Hra Hran].
  assert (Hyo : y <> o) by (intros ->; rewrite Hao in Hy; injection Hy as <-; lia).
  assert (Hax : r_a <> r_x) by congruence.
  destruct (push_store_spec n size s [r_a] [] ord r_a m_y y P (or_introl eq_refl) Hy Hmy
              ltac:(simpl; tauto)) as (s1 & E1 & P1 & Ea1 & Er1 & Eo1 & Esc1).
  rewrite (bind_ok _ _ _ _ _ E1).
  destruct (push_post s1 _ _ ord ro P1 ltac:(rewrite Esc1; exact Hok))
    as (s2 & E2 & P2 & Ea2 & Er2 & Eo2).
  rewrite (bind_ok _ _ _ _ _ E2).
  destruct (release_reg_spec n size Hn s2 _ _ ord r_x o P2 ltac:(rewrite Er2, Er1; exact Hrx))
    as (s3 & E3 & P3 & Ea3 & Er3 & Eo3).
  rewrite (bind_ok _ _ _ _ _ E3).
  destruct (bind_register_spec n size Hn s3 _ _ ord y r_a P3 (or_introl eq_refl) Hys
              (or_intror (or_introl eq_refl))) as (s4 & E4 & P4 & Ea4 & Er4 & Eo4).
  simpl_remove_in P4.
  exists s4. split; [exact E4|]. exists ord. split; [exact P4|]. split.
  - intros v. vw. split.
    + eqb_case v y; [intros _; right; split; congruence|].
      eqb_case v o; [congruence|]. intros Hv. right. split; [congruence|exact Hv].
    + intros [Hin|[Hvo Hv]].
      * apply in_map_iff in Hin. destruct Hin as ([v' r] & <- & Hin). simpl.
        destruct (Hargs _ _ Hin) as [[-> ->]|(H1 & H2 & H3)]; ifs.
      * ifs.
  - intros ssa S. rewrite Eo4, Eo3, Eo2, Eo1.
    eapply (sim_tail1 _ _ _ _ (allocf s)); [exact S|exact D|exact Hao| |exact Hy| |exact Hyo|exact Hax| | |].
    + intros w Hw. apply (alloc_inj s _ ord w o r_x P Hw Hao).
    + intros w Hw. apply (alloc_inj s _ ord w y m_y P Hw Hy).
    + intros v r Hin. vw. destruct (Hargs _ _ Hin) as [[-> ->]|(H1 & H2 & H3)]; ifs.
    + vw. ifs.
    + intros v l H1 H2 Hv. vw. ifs.
Qed.

(* T3: push op; rebind y r_x *)
Lemma tail_rebind s ord so ro o r_x y args :
  PInv s [] [] ord -> regf s r_x = Some o -> allocf s y = None -> y < size ->
  def_corr so ro o r_x args -> op_ok (a_slot_count s) ro ->
  In y (map fst args) ->
  (forall v r, In (v, r) args ->
     (v = y /\ r = r_x) \/ (v <> o /\ v <> y /\ allocf s v = Some r)) ->
  exists s', (push ro ;;; rebind_register y r_x) s = Ok (tt, s') /\
    OpPost s s' so (Some o) (map fst args).
Proof.
  intros P Hrx Hy Hys D Hok Hyin Hargs.
  destruct (regf_allocf _ _ _ _ _ _ P Hrx) as (Hao & Hrxn & Hos).
  assert (Hyo : y <> o) by congruence.
  destruct (push_post s _ _ ord ro P Hok) as (s1 & E1 & P1 & Ea1 & Er1 & Eo1).
  rewrite (bind_ok _ _ _ _ _ E1).
  destruct (rebind_register_spec n size Hn s1 _ _ ord y r_x o P1 ltac:(rewrite Er1; exact Hrx) Hys
              ltac:(left; rewrite Ea1; exact Hy)) as (s2 & E2 & P2 & Ea2 & Er2 & Eo2).
  simpl_remove_in P2.
  exists s2. split; [exact E2|]. exists ord. split; [exact P2|]. split.
  - intros v. vw. split.
    + eqb_case v y; [intros _; left; exact Hyin|].
      eqb_case v o; [congruence|]. intros Hv. right. split; [congruence|exact Hv].
    + intros [Hin|[Hvo Hv]].
      * apply in_map_iff in Hin. destruct Hin as ([v' r] & <- & Hin). simpl.
        destruct (Hargs _ _ Hin) as [[-> ->]|(H1 & H2 & H3)]; ifs.
      * ifs.
  - intros ssa S. rewrite Eo2, Eo1.
    eapply (sim_tail0 _ _ _ _ (allocf s)); [exact S|exact D|exact Hao| | |].
    + intros w Hw. apply (alloc_inj s _ ord w o r_x P Hw Hao).
    + intros v r Hin. vw. destruct (Hargs _ _ Hin) as [[-> ->]|(H1 & H2 & H3)]; ifs.
    + intros v l H1 Hv. vw. ifs.
Qed.

(* T4: two stores; push op; release r_x; bind y r_a; bind z r_b *)
Lemma tail_store2 s ord so ro o r_x r_a r_b y m_y z m_z args :
  PInv s [r_b; r_a] [] ord -> r_a <> r_b -> regf s r_x = Some o ->
  allocf s y = Some m_y -> n <= m_y -> y < size ->
  allocf s z = Some m_z -> n <= m_z -> z < size -> y <> z ->
  def_corr so ro o r_x args -> op_ok (a_slot_count s) ro ->
  (forall v r, In (v, r) args -> (v = y /\ r = r_a) \/ (v = z /\ r = r_b)) ->
  exists s', (push_store r_a m_y ;;; push_store r_b m_z ;;; push ro ;;; release_reg r_x ;;;
              bind_register y r_a ;;; bind_register z r_b) s = Ok (tt, s') /\
    OpPost s s' so (Some o) (map fst args).
Proof.
  intros P Hab Hrx Hy Hmy Hys Hz Hmz Hzs Hyz D Hok Hargs.
  destruct (regf_allocf _ _ _ _ _ _ P Hrx) as (Hao & Hrxn & Hos).
  destruct (held_none _ _ _ _ _ P (or_intror (or_introl eq_refl))) as [Hra Hran].
  destruct (held_none _ _ _ _ _ P (or_introl eq_refl)) as [Hrb Hrbn].
  assert (Hyo : y <> o) by (intros ->; rewrite Hao in Hy; injection Hy as <-; lia).
  assert (Hzo : z <> o) by (intros ->; rewrite Hao in Hz; injection Hz as <-; lia).
  assert (Hax : r_a <> r_x) by congruence.
  assert (Hbx : r_b <> r_x) by congruence.
  destruct (push_store_spec n size s _ _ ord r_a m_y y P (or_intror (or_introl eq_refl)) Hy Hmy
              ltac:(simpl; tauto)) as (s1 & E1 & P1 & Ea1 & Er1 & Eo1 & Esc1).
  rewrite (bind_ok _ _ _ _ _ E1).
  destruct (push_store_spec n size s1 _ _ ord r_b m_z z P1 (or_introl eq_refl)
              ltac:(rewrite Ea1; exact Hz) Hmz ltac:(simpl; intuition congruence))
    as (s2 & E2 & P2 & Ea2 & Er2 & Eo2 & Esc2).
  rewrite (bind_ok _ _ _ _ _ E2).
  destruct (push_post s2 _ _ ord ro P2 ltac:(rewrite Esc2, Esc1; exact Hok))
    as (s3 & E3 & P3 & Ea3 & Er3 & Eo3).
  rewrite (bind_ok _ _ _ _ _ E3).
  destruct (release_reg_spec n size Hn s3 _ _ ord r_x o P3
              ltac:(rewrite Er3, Er2, Er1; exact Hrx))
    as (s4 & E4 & P4 & Ea4 & Er4 & Eo4).
  rewrite (bind_ok _ _ _ _ _ E4).
  destruct (bind_register_spec n size Hn s4 _ _ ord y r_a P4 (or_intror (or_introl eq_refl)) Hys
              (or_intror (or_intror (or_introl eq_refl)))) as (s5 & E5 & P5 & Ea5 & Er5 & Eo5).
  rewrite (bind_ok _ _ _ _ _ E5).
  simpl_remove_in P5.
  destruct (bind_register_spec n size Hn s5 _ _ ord z r_b P5 (or_introl eq_refl) Hzs
              (or_intror (or_introl eq_refl))) as (s6 & E6 & P6 & Ea6 & Er6 & Eo6).
  simpl_remove_in P6.
  exists s6. split; [exact E6|]. exists ord. split; [exact P6|]. split.
  - intros v. vw. split.
    + eqb_case v z; [intros _; right; split; congruence|].
      eqb_case v y; [intros _; right; split; congruence|].
      eqb_case v o; [congruence|]. intros Hv. right. split; [congruence|exact Hv].
    + intros [Hin|[Hvo Hv]].
      * apply in_map_iff in Hin. destruct Hin as ([v' r] & <- & Hin). simpl.
        destruct (Hargs _ _ Hin) as [[-> ->]|[-> ->]]; ifs.
      * ifs.
  - intros ssa S. rewrite Eo6, Eo5, Eo4, Eo3, Eo2, Eo1.
    eapply (sim_tail2 _ _ _ _ (allocf s));
      [exact S|exact D|exact Hao| |exact Hy| |exact Hz| |exact Hyo|exact Hzo|exact Hyz
      |exact Hax|exact Hbx|lia| | | |].
    + intros w Hw. apply (alloc_inj s _ ord w o r_x P Hw Hao).
    + intros w Hw. apply (alloc_inj s _ ord w y m_y P Hw Hy).
    + intros w Hw. apply (alloc_inj s _ ord w z m_z P Hw Hz).
    + intros v r Hin. vw. destruct (Hargs _ _ Hin) as [[-> ->]|[-> ->]]; ifs.
    + vw. ifs.
    + vw. ifs.
    + intros v l H1 H2 H3 Hv. vw. ifs.
Qed.

Ltac vr :=
  repeat match goal with
  | E : forall j : nat, regf ?t j = @?f j |- context [regf ?t _] => rewrite E
  | E : regf ?t = regf _ |- context [regf ?t] => rewrite E
  end.

(* T5: push op; rebind y r_x; bind z r_a   (both arguments unassigned) *)
Lemma tail_rebind_bind s ord so ro o r_x r_a y z args :
  PInv s [r_a] [] ord -> regf s r_x = Some o ->
  allocf s y = None -> y < size -> allocf s z = None -> z < size -> y <> z ->
  def_corr so ro o r_x args -> op_ok (a_slot_count s) ro ->
  In y (map fst args) -> In z (map fst args) ->
  (forall v r, In (v, r) args -> (v = y /\ r = r_x) \/ (v = z /\ r = r_a)) ->
  exists s', (push ro ;;; rebind_register y r_x ;;; bind_register z r_a) s = Ok (tt, s') /\
    OpPost s s' so (Some o) (map fst args).
Proof.
  intros P Hrx Hy Hys Hz Hzs Hyz D Hok Hyin Hzin Hargs.
  destruct (regf_allocf _ _ _ _ _ _ P Hrx) as (Hao & Hrxn & Hos).
  assert (Hyo : y <> o) by congruence.
  assert (Hzo : z <> o) by congruence.
  destruct (push_post s _ _ ord ro P Hok) as (s1 & E1 & P1 & Ea1 & Er1 & Eo1).
  rewrite (bind_ok _ _ _ _ _ E1).
  destruct (rebind_register_spec n size Hn s1 _ _ ord y r_x o P1 ltac:(rewrite Er1; exact Hrx) Hys
              ltac:(left; rewrite Ea1; exact Hy)) as (s2 & E2 & P2 & Ea2 & Er2 & Eo2).
  rewrite (bind_ok _ _ _ _ _ E2).
  simpl_remove_in P2.
  destruct (bind_register_spec n size Hn s2 _ _ ord z r_a P2 (or_introl eq_refl) Hzs
              ltac:(left; vw; ifs)) as (s3 & E3 & P3 & Ea3 & Er3 & Eo3).
  simpl_remove_in P3.
  exists s3. split; [exact E3|]. exists ord. split; [exact P3|]. split.
  - intros v. vw. split.
    + eqb_case v z; [intros _; left; exact Hzin|].
      eqb_case v y; [intros _; left; exact Hyin|].
      eqb_case v o; [congruence|]. intros Hv. right. split; [congruence|exact Hv].
    + intros [Hin|[Hvo Hv]].
      * apply in_map_iff in Hin. destruct Hin as ([v' r] & <- & Hin). simpl.
        destruct (Hargs _ _ Hin) as [[-> ->]|[-> ->]]; ifs.
      * ifs.
  - intros ssa S. rewrite Eo3, Eo2, Eo1.
    eapply (sim_tail0 _ _ _ _ (allocf s)); [exact S|exact D|exact Hao| | |].
    + intros w Hw. apply (alloc_inj s _ ord w o r_x P Hw Hao).
    + intros v r Hin. vw. destruct (Hargs _ _ Hin) as [[-> ->]|[-> ->]]; ifs.
    + intros v l H1 Hv. vw. ifs.
Qed.

(* T6: store z; push op; rebind y r_x; bind z r_a   (y unassigned, z in memory) *)
Lemma tail_store_rebind_bind s ord so ro o r_x r_a y z m_z args :
  PInv s [r_a] [] ord -> regf s r_x = Some o ->
  allocf s y = None -> y < size -> allocf s z = Some m_z -> n <= m_z -> z < size ->
  def_corr so ro o r_x args -> op_ok (a_slot_count s) ro ->
  In y (map fst args) ->
  (forall v r, In (v, r) args -> (v = y /\ r = r_x) \/ (v = z /\ r = r_a)) ->
  exists s', (push_store r_a m_z ;;; push ro ;;; rebind_register y r_x ;;; bind_register z r_a) s
             = Ok (tt, s') /\
    OpPost s s' so (Some o) (map fst args).
Proof.
  intros P Hrx Hy Hys Hz Hmz Hzs D Hok Hyin Hargs.
  destruct (regf_allocf _ _ _ _ _ _ P Hrx) as (Hao & Hrxn & Hos).
  destruct (held_none _ _ _ _ _ P (or_introl eq_refl)) as [Hra Hran].
  assert (Hyo : y <> o) by congruence.
  assert (Hzo : z <> o) by (intros ->; rewrite Hao in Hz; injection Hz as <-; lia).
  assert (Hyz : y <> z) by congruence.
  assert (Hax : r_a <> r_x) by congruence.
  destruct (push_store_spec n size s _ _ ord r_a m_z z P (or_introl eq_refl) Hz Hmz
              ltac:(simpl; tauto)) as (s1 & E1 & P1 & Ea1 & Er1 & Eo1 & Esc1).
  rewrite (bind_ok _ _ _ _ _ E1).
  destruct (push_post s1 _ _ ord ro P1 ltac:(rewrite Esc1; exact Hok))
    as (s2 & E2 & P2 & Ea2 & Er2 & Eo2).
  rewrite (bind_ok _ _ _ _ _ E2).
  destruct (rebind_register_spec n size Hn s2 _ _ ord y r_x o P2
              ltac:(rewrite Er2, Er1; exact Hrx) Hys
              ltac:(left; rewrite Ea2, Ea1; exact Hy)) as (s3 & E3 & P3 & Ea3 & Er3 & Eo3).
  rewrite (bind_ok _ _ _ _ _ E3).
  simpl_remove_in P3.
  destruct (bind_register_spec n size Hn s3 _ _ ord z r_a P3 (or_introl eq_refl) Hzs
              (or_intror (or_introl eq_refl))) as (s4 & E4 & P4 & Ea4 & Er4 & Eo4).
  simpl_remove_in P4.
  exists s4. split; [exact E4|]. exists ord. split; [exact P4|]. split.
  - intros v. vw. split.
    + eqb_case v z; [intros _; right; split; congruence|].
      eqb_case v y; [intros _; left; exact Hyin|].
      eqb_case v o; [congruence|]. intros Hv. right. split; [congruence|exact Hv].
    + intros [Hin|[Hvo Hv]].
      * apply in_map_iff in Hin. destruct Hin as ([v' r] & <- & Hin). simpl.
        destruct (Hargs _ _ Hin) as [[-> ->]|[-> ->]]; ifs.
      * ifs.
  - intros ssa S. rewrite Eo4, Eo3, Eo2, Eo1.
    eapply (sim_tail1 _ _ _ _ (allocf s)); [exact S|exact D|exact Hao| |exact Hz| |exact Hzo|exact Hax| | |].
    + intros w Hw. apply (alloc_inj s _ ord w o r_x P Hw Hao).
    + intros w Hw. apply (alloc_inj s _ ord w z m_z P Hw Hz).
    + intros v r Hin. vw. destruct (Hargs _ _ Hin) as [[-> ->]|[-> ->]]; ifs.
    + vw. ifs.
    + intros v l H1 H2 Hv. vw. ifs.
Qed.

(* T7: store y; push op; bind y r_a; rebind z r_x   (y in memory, z unassigned) *)
Lemma tail_store_bind_rebind s ord so ro o r_x r_a y m_y z args :
  PInv s [r_a] [] ord -> regf s r_x = Some o ->
  allocf s y = Some m_y -> n <= m_y -> y < size -> allocf s z = None -> z < size ->
  def_corr so ro o r_x args -> op_ok (a_slot_count s) ro ->
  In z (map fst args) ->
  (forall v r, In (v, r) args -> (v = y /\ r = r_a) \/ (v = z /\ r = r_x)) ->
  exists s', (push_store r_a m_y ;;; push ro ;;; bind_register y r_a ;;; rebind_register z r_x) s
             = Ok (tt, s') /\
    OpPost s s' so (Some o) (map fst args).
Proof.
  intros P Hrx Hy Hmy Hys Hz Hzs D Hok Hzin Hargs.
  destruct (regf_allocf _ _ _ _ _ _ P Hrx) as (Hao & Hrxn & Hos).
  destruct (held_none _ _ _ _ _ P (or_introl eq_refl)) as [Hra Hran].
  assert (Hzo : z <> o) by congruence.
  assert (Hyo : y <> o) by (intros ->; rewrite Hao in Hy; injection Hy as <-; lia).
  assert (Hyz : y <> z) by congruence.
  assert (Hax : r_a <> r_x) by congruence.
  destruct (push_store_spec n size s _ _ ord r_a m_y y P (or_introl eq_refl) Hy Hmy
              ltac:(simpl; tauto)) as (s1 & E1 & P1 & Ea1 & Er1 & Eo1 & Esc1).
  rewrite (bind_ok _ _ _ _ _ E1).
  destruct (push_post s1 _ _ ord ro P1 ltac:(rewrite Esc1; exact Hok))
    as (s2 & E2 & P2 & Ea2 & Er2 & Eo2).
  rewrite (bind_ok _ _ _ _ _ E2).
  destruct (bind_register_spec n size Hn s2 _ _ ord y r_a P2 (or_introl eq_refl) Hys
              (or_intror (or_introl eq_refl))) as (s3 & E3 & P3 & Ea3 & Er3 & Eo3).
  rewrite (bind_ok _ _ _ _ _ E3).
  simpl_remove_in P3.
  destruct (rebind_register_spec n size Hn s3 _ _ ord z r_x o P3
              ltac:(vr; ifs) Hzs ltac:(left; vw; ifs))
    as (s4 & E4 & P4 & Ea4 & Er4 & Eo4).
  simpl_remove_in P4.
  exists s4. split; [exact E4|]. exists ord. split; [exact P4|]. split.
  - intros v. vw. split.
    + eqb_case v z; [intros _; left; exact Hzin|].
      eqb_case v o; [congruence|].
      eqb_case v y; [intros _; right; split; congruence|].
      intros Hv. right. split; [congruence|exact Hv].
    + intros [Hin|[Hvo Hv]].
      * apply in_map_iff in Hin. destruct Hin as ([v' r] & <- & Hin). simpl.
        destruct (Hargs _ _ Hin) as [[-> ->]|[-> ->]]; ifs.
      * ifs.
  - intros ssa S. rewrite Eo4, Eo3, Eo2, Eo1.
    eapply (sim_tail1 _ _ _ _ (allocf s)); [exact S|exact D|exact Hao| |exact Hy| |exact Hyo|exact Hax| | |].
    + intros w Hw. apply (alloc_inj s _ ord w o r_x P Hw Hao).
    + intros w Hw. apply (alloc_inj s _ ord w y m_y P Hw Hy).
    + intros v r Hin. vw. destruct (Hargs _ _ Hin) as [[-> ->]|[-> ->]]; ifs.
    + vw. ifs.
    + intros v l H1 H2 Hv. vw. ifs.
Qed.

(* O1..O3: outputs *)
Lemma tail_out_reg s ord arg i r_y :
  PInv s [] [] ord -> allocf s arg = Some r_y -> r_y < n ->
  exists s', push (OOutput r_y i) s = Ok (tt, s') /\
    OpPost s s' (OOutput arg i) None [arg].
Proof.
  intros P Ha Hr.
  pose proof (allocf_regf _ _ _ _ _ _ P Ha Hr) as Hreg.
  destruct (push_post s _ _ ord (OOutput r_y i) P ltac:(simpl; eapply bound_reg_ok; eauto))
    as (s1 & E1 & P1 & Ea1 & Er1 & Eo1).
  exists s1. split; [exact E1|]. exists ord. split; [exact P1|]. split.
  - intros v. vw. split.
    + intros Hv. right. split; [discriminate|exact Hv].
    + intros [[<-|[]]|[_ Hv]]; congruence.
  - intros ssa S. rewrite Eo1. eapply sim_output; [exact S| |].
    + vw. exact Ha.
    + intros v l Hv. vw. exact Hv.
Qed.

Lemma tail_out_mem s ord arg i r_a m :
  PInv s [r_a] [] ord -> allocf s arg = Some m -> n <= m -> arg < size ->
  exists s', (push_store r_a m ;;; push (OOutput r_a i) ;;; bind_register arg r_a) s
             = Ok (tt, s') /\
    OpPost s s' (OOutput arg i) None [arg].
Proof.
  intros P Ha Hm Has.
  destruct (push_store_spec n size s _ _ ord r_a m arg P (or_introl eq_refl) Ha Hm
              ltac:(simpl; tauto)) as (s1 & E1 & P1 & Ea1 & Er1 & Eo1 & Esc1).
  rewrite (bind_ok _ _ _ _ _ E1).
  destruct (push_post s1 _ _ ord (OOutput r_a i) P1
              ltac:(simpl; eapply held_reg_ok; [exact P1|left; reflexivity]))
    as (s2 & E2 & P2 & Ea2 & Er2 & Eo2).
  rewrite (bind_ok _ _ _ _ _ E2).
  destruct (bind_register_spec n size Hn s2 _ _ ord arg r_a P2 (or_introl eq_refl) Has
              (or_intror (or_introl eq_refl))) as (s3 & E3 & P3 & Ea3 & Er3 & Eo3).
  simpl_remove_in P3.
  exists s3. split; [exact E3|]. exists ord. split; [exact P3|]. split.
  - intros v. vw. split.
    + eqb_case v arg; [intros _; left; left; reflexivity|].
      intros Hv. right. split; [discriminate|exact Hv].
    + intros [[<-|[]]|[_ Hv]]; ifs.
  - intros ssa S. rewrite Eo3, Eo2, Eo1.
    eapply (sim_out1 _ _ _ _ (allocf s)); [exact S|exact Ha| | |].
    + intros w Hw. apply (alloc_inj s _ ord w arg m P Hw Ha).
    + vw. ifs.
    + intros v l H1 Hv. vw. ifs.
Qed.

Lemma tail_out_un s ord arg i r_a :
  PInv s [r_a] [] ord -> allocf s arg = None -> arg < size ->
  exists s', (push (OOutput r_a i) ;;; bind_register arg r_a) s = Ok (tt, s') /\
    OpPost s s' (OOutput arg i) None [arg].
Proof.
  intros P Ha Has.
  destruct (push_post s _ _ ord (OOutput r_a i) P
              ltac:(simpl; eapply held_reg_ok; [exact P|left; reflexivity]))
    as (s1 & E1 & P1 & Ea1 & Er1 & Eo1).
  rewrite (bind_ok _ _ _ _ _ E1).
  destruct (bind_register_spec n size Hn s1 _ _ ord arg r_a P1 (or_introl eq_refl) Has
              ltac:(left; vw; exact Ha)) as (s2 & E2 & P2 & Ea2 & Er2 & Eo2).
  simpl_remove_in P2.
  exists s2. split; [exact E2|]. exists ord. split; [exact P2|]. split.
  - intros v. vw. split.
    + eqb_case v arg; [intros _; left; left; reflexivity|].
      intros Hv. right. split; [discriminate|exact Hv].
    + intros [[<-|[]]|[_ Hv]]; ifs.
  - intros ssa S. rewrite Eo2, Eo1.
    eapply sim_output; [exact S| |].
    + vw. ifs.
    + intros v l Hv. vw. ifs.
Qed.

(* ================= composites, any budget >= 1 =================
   Each specification has the shape
     match op s with Ok (_, s') => POST | Err _ => n < 3 end
   i.e. total correctness for n >= 3 and partial correctness below. *)
Section Composite.

Lemma clash_small s H ord r x w k : PInv s H [] ord ->
  regf s r = None \/ r = last ord 0 ->
  regf s x = Some w -> In x (firstn k ord) -> k <= 2 -> r = x -> n < 3.
Proof.
  intros P Hsrc Hx Hrec Hk E. destruct (Nat.lt_ge_cases k n) as [Hlt|Hge]; [|lia].
  exfalso. revert E. eapply fresh_not_recent; eauto.
Qed.

(* a fresh register never equals the register of an argument that was just poked *)
Lemma no_clash_arg s H ord r x w y v : PInv s H [] ord ->
  regf s r = None \/ r = last ord 0 ->
  regf s x = Some w -> In x (firstn 1 ord) ->
  regf s y = Some v -> v <> w -> r <> x.
Proof.
  intros P Hsrc Hx Hrec Hy Hvw E. destruct (Nat.lt_ge_cases 1 n) as [Hlt|Hge].
  - revert E. eapply fresh_not_recent; eauto.
  - destruct (regf_allocf _ _ _ _ _ _ P Hx) as (_ & Hxn & _).
    destruct (regf_allocf _ _ _ _ _ _ P Hy) as (_ & Hyn & _).
    assert (x = y) by lia. subst. congruence.
Qed.

Lemma regf_none_nth (s : ast) r : regf s r = None -> r < length (a_regs s) ->
  nth_error (a_regs s) r = Some None.
Proof.
  unfold regf. intros H Hr. apply nth_error_Some in Hr.
  destruct (nth_error (a_regs s) r) as [[x|]|]; congruence.
Qed.

(* ---- must-fail facts: once r_x has been evicted, every tail errs ---- *)
Definition dead (s : ast) (r : nat) : Prop :=
  r < a_n s /\ nth_error (a_regs s) r = Some None.

Lemma dead_held s H St ord r : PInv s H St ord -> In r H -> dead s r.
Proof.
  intros P Hr. destruct (held_none _ _ _ _ _ P Hr) as [Hnone Hlt]. split.
  - rewrite (pi_n _ _ _ _ _ _ P). exact Hlt.
  - apply regf_none_nth; [exact Hnone|rewrite (pi_lregs _ _ _ _ _ _ P); exact Hlt].
Qed.

Lemma push_store_dead (s : ast) r m x : dead s x ->
  (exists c, push_store r m s = Err c) \/
  (exists s', push_store r m s = Ok (tt, s') /\ dead s' x).
Proof.
  intros D. unfold push_store, release_mem, bind, push, get, assert, put. cbn.
  destruct (Nat.leb (a_n s) m); cbn; [right|left; eauto].
  eexists. split; [reflexivity|]. exact D.
Qed.

Lemma push_dead (s : ast) o x : dead s x ->
  exists s', push o s = Ok (tt, s') /\ dead s' x.
Proof. intros D. eexists. split; [reflexivity|exact D]. Qed.

Lemma release_reg_dead (s : ast) r : dead s r -> release_reg r s = Err 18.
Proof.
  intros [H1 H2]. unfold release_reg, bind, get, assert. apply Nat.ltb_lt in H1. rewrite H1.
  unfold ret, reg_at. rewrite H2. reflexivity.
Qed.

Lemma rebind_dead (s : ast) v r : dead s r -> exists c, rebind_register v r s = Err c.
Proof.
  intros [H1 H2]. unfold rebind_register, bind, get, alloc_at.
  destruct (nth_error (a_alloc s) v); [|eauto]. unfold assert.
  destruct (alloc_ge_n o (a_n s)); unfold ret, fail; [|eauto].
  unfold reg_at. rewrite H2. eauto.
Qed.

Lemma fail_T2 (s : ast) r_a m ro r_x (k : M unit) : dead s r_x ->
  exists c, (push_store r_a m ;;; push ro ;;; release_reg r_x ;;; k) s = Err c.
Proof.
  intros D. unfold bind at 1.
  destruct (push_store_dead s r_a m r_x D) as [[c E]|(s1 & E & D1)]; rewrite E; [eauto|].
  unfold bind at 1. destruct (push_dead s1 ro r_x D1) as (s2 & E2 & D2). rewrite E2.
  unfold bind at 1. rewrite (release_reg_dead s2 r_x D2). eauto.
Qed.

Lemma fail_T4 (s : ast) r_a m r_b m' ro r_x (k : M unit) : dead s r_x ->
  exists c, (push_store r_a m ;;; push_store r_b m' ;;; push ro ;;; release_reg r_x ;;; k) s = Err c.
Proof.
  intros D. unfold bind at 1.
  destruct (push_store_dead s r_a m r_x D) as [[c E]|(s1 & E & D1)]; rewrite E; [eauto|].
  apply fail_T2. exact D1.
Qed.

Lemma fail_T5 (s : ast) ro y r_x (k : M unit) : dead s r_x ->
  exists c, (push ro ;;; rebind_register y r_x ;;; k) s = Err c.
Proof.
  intros D. unfold bind at 1. destruct (push_dead s ro r_x D) as (s1 & E1 & D1). rewrite E1.
  unfold bind at 1. destruct (rebind_dead s1 y r_x D1) as [c E]. rewrite E. eauto.
Qed.

Lemma reg_ok_bound s H St ord r v : PInv s H St ord -> regf s r = Some v ->
  reg_ok n (a_slot_count s) r.
Proof. apply bound_reg_ok. Qed.

(* ---------- op_out_only ---------- *)
Lemma op_out_only_spec s ord so out (mk : nat -> op) :
  PInv s [] [] ord -> out < size -> allocf s out <> None ->
  (forall rx, def_corr so (mk rx) out rx []) ->
  (forall sc rx, reg_ok n sc rx -> op_ok sc (mk rx)) ->
  exists s', op_out_only out mk s = Ok (tt, s') /\ OpPost s s' so (Some out) [].
Proof.
  intros P Ho Hlive Hcorr Hok. unfold op_out_only.
  pose proof (get_out_reg_spec s ord out P Ho Hlive) as G. unfold bind at 1.
  destruct (get_out_reg out s) as [[r_x s1]|c]; [|destruct G]. destruct G as (ord1 & G).
  pose proof (go_inv _ _ _ _ _ G) as P1. pose proof (go_reg _ _ _ _ _ G) as Hrx.
  destruct (tail_release s1 ord1 so (mk r_x) out r_x [] P1 Hrx (Hcorr r_x)
              ltac:(apply Hok; eapply reg_ok_bound; eauto) ltac:(intros v r []))
    as (s' & E & Post).
  exists s'. split; [exact E|].
  eapply OpPost_pre; [apply (go_sim _ _ _ _ _ G)|apply (go_dom _ _ _ _ _ G)|exact Post].
Qed.

(* ---------- op_reg_fn ---------- *)
Ltac must_fail lem PH :=
  match goal with
  | |- match ?X with Ok _ => _ | Err _ => _ end =>
      let c := fresh "c" in let Ec := fresh "Ec" in
      assert (exists c, X = Err c) as [c Ec]
        by (apply lem; eapply dead_held; [exact PH|simpl; auto]);
      rewrite Ec
  end.

Lemma op_reg_fn_spec s ord so out arg (mk : nat -> nat -> op) :
  PInv s [] [] ord -> out < size -> allocf s out <> None -> arg < size -> arg <> out ->
  (forall rx ry, def_corr so (mk rx ry) out rx [(arg, ry)]) ->
  (forall sc rx ry, reg_ok n sc rx -> reg_ok n sc ry -> op_ok sc (mk rx ry)) ->
  match op_reg_fn out arg mk s with
  | Ok (_, s') => OpPost s s' so (Some out) [arg]
  | Err _ => n < 3
  end.
Proof.
  intros P Ho Hlive Ha Hne Hcorr Hok. unfold op_reg_fn.
  pose proof (get_out_reg_spec s ord out P Ho Hlive) as G. unfold bind at 1.
  destruct (get_out_reg out s) as [[r_x s1]|c]; [|destruct G]. destruct G as (ord1 & G).
  pose proof (go_inv _ _ _ _ _ G) as P1. pose proof (go_reg _ _ _ _ _ G) as Hrx.
  destruct (get_allocation_post s1 [] ord1 arg P1 Ha)
    as (s2 & ord2 & E2 & P2 & Ea2 & Er2 & Eo2 & Eord2).
  rewrite (bind_ok _ _ _ _ _ E2).
  assert (Hrx2 : regf s2 r_x = Some out) by (rewrite Er2; exact Hrx).
  assert (S02 : SimStep s s2).
  { eapply SimStep_trans; [apply (go_sim _ _ _ _ _ G)|apply SimStep_same; auto]. }
  assert (D02 : forall v, allocf s2 v = None <-> allocf s v = None).
  { intros v. rewrite Ea2. apply (go_dom _ _ _ _ _ G). }
  destruct (allocf s1 arg) as [l|] eqn:Earg; unfold alloc_class.
  1: destruct (Nat.ltb l n) eqn:El.
  - (* register *)
    apply Nat.ltb_lt in El.
    pose proof (allocf_regf _ _ _ _ _ _ P1 Earg El) as Hry.
    assert (Hxy : r_x <> l) by (intros ->; congruence).
    unfold bind at 1, assert. apply Nat.eqb_neq in Hxy. rewrite Hxy. cbn [negb]. unfold ret at 1. cbv beta iota.
    destruct (tail_release s2 ord2 so (mk r_x l) out r_x [(arg, l)] P2 Hrx2 (Hcorr r_x l)
                ltac:(apply Hok; eapply reg_ok_bound; eauto; rewrite Er2; eauto)
                ltac:(intros v r [[= <- <-]|[]]; split; [exact Hne|rewrite Ea2; exact Earg]))
      as (s' & E & Post).
    rewrite E. eapply OpPost_pre; eauto.
  - (* memory *)
    apply Nat.ltb_ge in El. subst ord2.
    pose proof (get_register_post s2 [] ord1 P2) as GR. unfold bind at 1.
    destruct (get_register s2) as [[r_a s3]|c]; [|destruct GR]. destruct GR as (ord3 & GR).
    pose proof (gr_inv _ _ _ _ _ _ GR) as P3.
    destruct (Nat.eq_dec r_a r_x) as [Eclash|Hax].
    { assert (Hsmall : n < 3)
        by (eapply (clash_small s2 [] ord1 r_a r_x out 1); eauto using gr_src, go_recent).
      subst r_a. must_fail fail_T2 P3. exact Hsmall. }
    assert (Hrx3 : regf s3 r_x = Some out) by (apply (gr_reg _ _ _ _ _ _ GR); auto).
    assert (Earg3 : allocf s3 arg = Some l).
    { apply (gr_mem _ _ _ _ _ _ GR); [rewrite Ea2; exact Earg|exact El]. }
    destruct (tail_store_release_bind s3 ord3 so (mk r_x r_a) out r_x r_a arg l [(arg, r_a)]
                P3 Hrx3 Earg3 El Ha (Hcorr r_x r_a)
                ltac:(apply Hok; [eapply reg_ok_bound; eauto
                                 |eapply held_reg_ok; [exact P3|left; reflexivity]])
                ltac:(intros v r [[= <- <-]|[]]; left; auto))
      as (s' & E & Post).
    rewrite E.
    eapply OpPost_pre; [| |exact Post].
    + eapply SimStep_trans; [exact S02|apply (gr_sim _ _ _ _ _ _ GR)].
    + intros v. rewrite (gr_dom _ _ _ _ _ _ GR). apply D02.
  - (* unassigned *)
    subst ord2.
    destruct (tail_rebind s2 ord1 so (mk r_x r_x) out r_x arg [(arg, r_x)] P2 Hrx2
                ltac:(rewrite Ea2; exact Earg) Ha (Hcorr r_x r_x)
                ltac:(apply Hok; eapply reg_ok_bound; eauto)
                ltac:(left; reflexivity)
                ltac:(intros v r [[= <- <-]|[]]; left; auto))
      as (s' & E & Post).
    rewrite E. eapply OpPost_pre; eauto.
Qed.

Lemma OpPost_pre_gr s s2 s3 s' H ord ord' r so o argvars :
  SimStep s s2 -> (forall v, allocf s2 v = None <-> allocf s v = None) ->
  GRP s2 s3 H ord ord' r ->
  OpPost s3 s' so o argvars -> OpPost s s' so o argvars.
Proof.
  intros S D GR Post. eapply OpPost_pre; [| |exact Post].
  - eapply SimStep_trans; [exact S|apply (gr_sim _ _ _ _ _ _ GR)].
  - intros v. rewrite (gr_dom _ _ _ _ _ _ GR). apply D.
Qed.

(* ---------- op_reg_reg ---------- *)
Lemma op_reg_reg_spec s ord so out lhs rhs (mk : nat -> nat -> nat -> op) :
  PInv s [] [] ord -> out < size -> allocf s out <> None ->
  lhs < size -> lhs <> out -> rhs < size -> rhs <> out ->
  (forall rx ry rz, def_corr so (mk rx ry rz) out rx [(lhs, ry); (rhs, rz)]) ->
  (forall sc rx ry rz, reg_ok n sc rx -> reg_ok n sc ry -> reg_ok n sc rz ->
                       op_ok sc (mk rx ry rz)) ->
  match op_reg_reg out lhs rhs mk s with
  | Ok (_, s') => OpPost s s' so (Some out) [lhs; rhs]
  | Err _ => n < 3
  end.
Proof.
  intros P Ho Hlive Hl Hlo Hr Hro Hcorr Hok. unfold op_reg_reg.
  pose proof (get_out_reg_spec s ord out P Ho Hlive) as G. unfold bind at 1.
  destruct (get_out_reg out s) as [[r_x s1]|c]; [|destruct G]. destruct G as (ord1 & G).
  pose proof (go_inv _ _ _ _ _ G) as P1. pose proof (go_reg _ _ _ _ _ G) as Hrx.
  pose proof (go_recent _ _ _ _ _ G) as Hrec1.
  destruct (get_allocation_post s1 [] ord1 lhs P1 Hl)
    as (s2 & ord2 & E2 & P2 & Ea2 & Er2 & Eo2 & Eord2).
  rewrite (bind_ok _ _ _ _ _ E2).
  destruct (get_allocation_post s2 [] ord2 rhs P2 Hr)
    as (s3 & ord3 & E3 & P3 & Ea3 & Er3 & Eo3 & Eord3).
  rewrite (bind_ok _ _ _ _ _ E3).
  rewrite Ea2 in Eord3. rewrite Ea2.
  assert (Hrx3 : regf s3 r_x = Some out) by (rewrite Er3, Er2; exact Hrx).
  assert (Eaf : allocf s3 = allocf s1) by (rewrite Ea3, Ea2; reflexivity).
  assert (Erf : regf s3 = regf s1) by (rewrite Er3, Er2; reflexivity).
  assert (S03 : SimStep s s3).
  { eapply SimStep_trans; [apply (go_sim _ _ _ _ _ G)|apply SimStep_same; congruence]. }
  assert (D03 : forall v, allocf s3 v = None <-> allocf s v = None).
  { intros v. rewrite Eaf. apply (go_dom _ _ _ _ _ G). }
  assert (Hokx : forall sc, reg_ok n sc r_x -> True) by auto.
  pose proof (reg_ok_bound _ _ _ _ _ _ P3 Hrx3) as Okx.
  destruct (allocf s1 lhs) as [ll|] eqn:Elhs; destruct (allocf s1 rhs) as [lr|] eqn:Erhs;
    unfold alloc_class;
    repeat match goal with
    | |- context [Nat.ltb ?a n] =>
        let E := fresh "El" in destruct (Nat.ltb a n) eqn:E;
        [apply Nat.ltb_lt in E|apply Nat.ltb_ge in E]
    end; cbv beta iota.
  - (* R, R *)
    subst ord2 ord3.
    pose proof (allocf_regf _ _ _ _ _ _ P1 Elhs El) as Hry.
    pose proof (allocf_regf _ _ _ _ _ _ P1 Erhs El0) as Hrz.
    rewrite <- Erf in Hry, Hrz.
    destruct (tail_release s3 _ so (mk r_x ll lr) out r_x [(lhs, ll); (rhs, lr)] P3 Hrx3
                (Hcorr _ _ _)
                ltac:(apply Hok; [exact Okx|eapply reg_ok_bound; eauto|eapply reg_ok_bound; eauto])
                ltac:(intros v r [[= <- <-]|[[= <- <-]|[]]]; (split; [assumption|]);
                      rewrite Eaf; assumption))
      as (s' & E & Post).
    rewrite E. eapply OpPost_pre; eauto.
  - (* R, M *)
    subst ord2 ord3.
    pose proof (allocf_regf _ _ _ _ _ _ P1 Elhs El) as Hry. rewrite <- Erf in Hry.
    assert (Hlr : lhs <> rhs) by (intros ->; rewrite Elhs in Erhs; injection Erhs as <-; lia).
    pose proof (get_register_post s3 [] _ P3) as GR. unfold bind at 1.
    destruct (get_register s3) as [[r_a s4]|c]; [|destruct GR]. destruct GR as (ord4 & GR).
    pose proof (gr_inv _ _ _ _ _ _ GR) as P4.
    destruct (Nat.eq_dec r_a r_x) as [Eclash|Hax].
    { assert (Hsmall : n < 3).
      { eapply (clash_small s3 [] _ r_a r_x out 2); eauto using gr_src.
        apply recent_poke. exact Hrec1. }
      subst r_a. must_fail fail_T2 P4. exact Hsmall. }
    assert (Hay : r_a <> ll).
    { eapply (no_clash_arg s3 [] _ r_a ll lhs r_x out); eauto using gr_src.
      apply recent_poke_hd. }
    assert (Hrx4 : regf s4 r_x = Some out) by (apply (gr_reg _ _ _ _ _ _ GR); auto).
    assert (Hry4 : regf s4 ll = Some lhs) by (apply (gr_reg _ _ _ _ _ _ GR); auto).
    destruct (regf_allocf _ _ _ _ _ _ P4 Hry4) as (Elhs4 & _ & _).
    assert (Erhs4 : allocf s4 rhs = Some lr).
    { apply (gr_mem _ _ _ _ _ _ GR); [rewrite Eaf; exact Erhs|assumption]. }
    destruct (tail_store_release_bind s4 ord4 so (mk r_x ll r_a) out r_x r_a rhs lr
                [(lhs, ll); (rhs, r_a)] P4 Hrx4 Erhs4 ltac:(assumption) Hr (Hcorr _ _ _)
                ltac:(apply Hok; [eapply reg_ok_bound; eauto|eapply reg_ok_bound; eauto
                                 |eapply held_reg_ok; [exact P4|left; reflexivity]])
                ltac:(intros v r [[= <- <-]|[[= <- <-]|[]]]; [right|left]; auto))
      as (s' & E & Post).
    rewrite E. eapply OpPost_pre_gr; eauto.
  - (* M, R *)
    subst ord2 ord3.
    pose proof (allocf_regf _ _ _ _ _ _ P1 Erhs El0) as Hrz. rewrite <- Erf in Hrz.
    assert (Hlr : lhs <> rhs) by (intros ->; rewrite Elhs in Erhs; injection Erhs as <-; lia).
    pose proof (get_register_post s3 [] _ P3) as GR. unfold bind at 1.
    destruct (get_register s3) as [[r_a s4]|c]; [|destruct GR]. destruct GR as (ord4 & GR).
    pose proof (gr_inv _ _ _ _ _ _ GR) as P4.
    destruct (Nat.eq_dec r_a r_x) as [Eclash|Hax].
    { assert (Hsmall : n < 3).
      { eapply (clash_small s3 [] _ r_a r_x out 2); eauto using gr_src.
        apply recent_poke. exact Hrec1. }
      subst r_a. must_fail fail_T2 P4. exact Hsmall. }
    assert (Haz : r_a <> lr).
    { eapply (no_clash_arg s3 [] _ r_a lr rhs r_x out); eauto using gr_src.
      apply recent_poke_hd. }
    assert (Hrx4 : regf s4 r_x = Some out) by (apply (gr_reg _ _ _ _ _ _ GR); auto).
    assert (Hrz4 : regf s4 lr = Some rhs) by (apply (gr_reg _ _ _ _ _ _ GR); auto).
    destruct (regf_allocf _ _ _ _ _ _ P4 Hrz4) as (Erhs4 & _ & _).
    assert (Elhs4 : allocf s4 lhs = Some ll).
    { apply (gr_mem _ _ _ _ _ _ GR); [rewrite Eaf; exact Elhs|assumption]. }
    destruct (tail_store_release_bind s4 ord4 so (mk r_x r_a lr) out r_x r_a lhs ll
                [(lhs, r_a); (rhs, lr)] P4 Hrx4 Elhs4 ltac:(assumption) Hl (Hcorr _ _ _)
                ltac:(apply Hok; [eapply reg_ok_bound; eauto
                                 |eapply held_reg_ok; [exact P4|left; reflexivity]
                                 |eapply reg_ok_bound; eauto])
                ltac:(intros v r [[= <- <-]|[[= <- <-]|[]]]; [left|right]; auto))
      as (s' & E & Post).
    rewrite E. eapply OpPost_pre_gr; eauto.
  - (* M, M *)
    subst ord2 ord3.
    destruct (Nat.eqb_spec lhs rhs) as [Elr|Hlr].
    + (* same variable *)
      subst rhs. assert (lr = ll) by congruence. subst lr.
      pose proof (get_register_post s3 [] _ P3) as GR. unfold bind at 1.
      destruct (get_register s3) as [[r_a s4]|c]; [|destruct GR]. destruct GR as (ord4 & GR).
      pose proof (gr_inv _ _ _ _ _ _ GR) as P4.
      destruct (Nat.eq_dec r_a r_x) as [Eclash|Hax].
      { assert (Hsmall : n < 3)
          by (eapply (clash_small s3 [] _ r_a r_x out 1); eauto using gr_src).
        subst r_a. must_fail fail_T2 P4. exact Hsmall. }
      assert (Hrx4 : regf s4 r_x = Some out) by (apply (gr_reg _ _ _ _ _ _ GR); auto).
      assert (Elhs4 : allocf s4 lhs = Some ll).
      { apply (gr_mem _ _ _ _ _ _ GR); [rewrite Eaf; exact Elhs|assumption]. }
      destruct (tail_store_release_bind s4 ord4 so (mk r_x r_a r_a) out r_x r_a lhs ll
                  [(lhs, r_a); (lhs, r_a)] P4 Hrx4 Elhs4 ltac:(assumption) Hl (Hcorr _ _ _)
                  ltac:(apply Hok; [eapply reg_ok_bound; eauto
                                   |eapply held_reg_ok; [exact P4|left; reflexivity]
                                   |eapply held_reg_ok; [exact P4|left; reflexivity]])
                  ltac:(intros v r [[= <- <-]|[[= <- <-]|[]]]; left; auto))
        as (s' & E & Post).
      rewrite E. eapply OpPost_pre_gr; eauto.
    + (* two variables *)
      pose proof (get_register_post s3 [] _ P3) as GR. unfold bind at 1.
      destruct (get_register s3) as [[r_a s4]|c]; [|destruct GR]. destruct GR as (ord4 & GR).
      pose proof (gr_inv _ _ _ _ _ _ GR) as P4.
      pose proof (get_register_post s4 [r_a] _ P4) as GR2. unfold bind at 1.
      destruct (get_register s4) as [[r_b s5]|c].
      2:{ destruct GR2 as [GR2|[]].
          destruct (Nat.lt_ge_cases 1 n) as [H1n|H1n]; [exfalso|lia].
          pose proof (pi_lru _ _ _ _ _ _ P4) as R4.
          apply (last_not_recent ord4 1 (lr_nd _ _ _ R4)); [rewrite (lr_len _ _ _ R4); lia|].
          rewrite <- GR2. apply (gr_recent _ _ _ _ _ _ GR). }
      destruct GR2 as (ord5 & GR2).
      pose proof (gr_inv _ _ _ _ _ _ GR2) as P5.
      destruct (Nat.eq_dec r_a r_x) as [Eclash|Hax].
      { assert (Hsmall : n < 3)
          by (eapply (clash_small s3 [] _ r_a r_x out 1); eauto using gr_src).
        subst r_a. must_fail fail_T4 P5. exact Hsmall. }
      assert (Hrx4 : regf s4 r_x = Some out) by (apply (gr_reg _ _ _ _ _ _ GR); auto).
      destruct (Nat.eq_dec r_b r_x) as [Eclash|Hbx].
      { assert (Hsmall : n < 3).
        { eapply (clash_small s4 _ _ r_b r_x out 2); eauto using gr_src.
          apply (gr_age _ _ _ _ _ _ GR). exact Hrec1. }
        subst r_b. must_fail fail_T4 P5. exact Hsmall. }
      assert (Hab : r_a <> r_b).
      { intros ->. apply (gr_notin _ _ _ _ _ _ GR2). left. reflexivity. }
      assert (Hrx5 : regf s5 r_x = Some out) by (apply (gr_reg _ _ _ _ _ _ GR2); auto).
      assert (Elhs5 : allocf s5 lhs = Some ll).
      { apply (gr_mem _ _ _ _ _ _ GR2); [|assumption].
        apply (gr_mem _ _ _ _ _ _ GR); [rewrite Eaf; exact Elhs|assumption]. }
      assert (Erhs5 : allocf s5 rhs = Some lr).
      { apply (gr_mem _ _ _ _ _ _ GR2); [|assumption].
        apply (gr_mem _ _ _ _ _ _ GR); [rewrite Eaf; exact Erhs|assumption]. }
      destruct (tail_store2 s5 ord5 so (mk r_x r_a r_b) out r_x r_a r_b lhs ll rhs lr
                  [(lhs, r_a); (rhs, r_b)] P5 Hab Hrx5 Elhs5 ltac:(assumption) Hl
                  Erhs5 ltac:(assumption) Hr Hlr (Hcorr _ _ _)
                  ltac:(apply Hok; [eapply reg_ok_bound; eauto
                                   |eapply held_reg_ok; [exact P5|right; left; reflexivity]
                                   |eapply held_reg_ok; [exact P5|left; reflexivity]])
                  ltac:(intros v r [[= <- <-]|[[= <- <-]|[]]]; [left|right]; auto))
        as (s' & E & Post).
      rewrite E.
      eapply OpPost_pre_gr; [| |exact GR2|exact Post].
      * eapply SimStep_trans; [exact S03|apply (gr_sim _ _ _ _ _ _ GR)].
      * intros v. rewrite (gr_dom _ _ _ _ _ _ GR). apply D03.
  - (* R, U *)
    subst ord2 ord3.
    pose proof (allocf_regf _ _ _ _ _ _ P1 Elhs El) as Hry. rewrite <- Erf in Hry.
    assert (Hlr : lhs <> rhs) by (intros ->; congruence).
    destruct (tail_rebind s3 _ so (mk r_x ll r_x) out r_x rhs [(lhs, ll); (rhs, r_x)] P3 Hrx3
                ltac:(rewrite Eaf; exact Erhs) Hr (Hcorr _ _ _)
                ltac:(apply Hok; [exact Okx|eapply reg_ok_bound; eauto|exact Okx])
                ltac:(right; left; reflexivity)
                ltac:(intros v r [[= <- <-]|[[= <- <-]|[]]]; [right|left]; auto;
                      repeat split; auto; rewrite Eaf; assumption))
      as (s' & E & Post).
    rewrite E. eapply OpPost_pre; eauto.
  - (* M, U *)
    subst ord2 ord3.
    assert (Hlr : lhs <> rhs) by (intros ->; congruence).
    pose proof (get_register_post s3 [] _ P3) as GR. unfold bind at 1.
    destruct (get_register s3) as [[r_a s4]|c]; [|destruct GR]. destruct GR as (ord4 & GR).
    pose proof (gr_inv _ _ _ _ _ _ GR) as P4.
    destruct (Nat.eq_dec r_a r_x) as [Eclash|Hax].
    { assert (Hsmall : n < 3)
        by (eapply (clash_small s3 [] _ r_a r_x out 1); eauto using gr_src).
      subst r_a. unfold bind at 1, assert at 1. rewrite Nat.eqb_refl. exact Hsmall. }
    assert (Hrx4 : regf s4 r_x = Some out) by (apply (gr_reg _ _ _ _ _ _ GR); auto).
    assert (Elhs4 : allocf s4 lhs = Some ll).
    { apply (gr_mem _ _ _ _ _ _ GR); [rewrite Eaf; exact Elhs|assumption]. }
    assert (Erhs4 : allocf s4 rhs = None).
    { apply (gr_dom _ _ _ _ _ _ GR). rewrite Eaf. exact Erhs. }
    unfold bind at 1, assert at 1.
    pose proof Hax as Hax'. apply Nat.eqb_neq in Hax'. rewrite Hax'. cbn [negb]. unfold ret at 1. cbv beta iota.
    unfold bind at 1, assert at 1.
    pose proof Hlr as Hlr'. apply Nat.eqb_neq in Hlr'. rewrite Hlr'. cbn [negb]. unfold ret at 1. cbv beta iota.
    destruct (tail_store_bind_rebind s4 ord4 so (mk r_x r_a r_x) out r_x r_a lhs ll rhs
                [(lhs, r_a); (rhs, r_x)] P4 Hrx4 Elhs4 ltac:(assumption) Hl Erhs4 Hr
                (Hcorr _ _ _)
                ltac:(apply Hok; [eapply reg_ok_bound; eauto
                                 |eapply held_reg_ok; [exact P4|left; reflexivity]
                                 |eapply reg_ok_bound; eauto])
                ltac:(right; left; reflexivity)
                ltac:(intros v r [[= <- <-]|[[= <- <-]|[]]]; [left|right]; auto))
      as (s' & E & Post).
    rewrite E. eapply OpPost_pre_gr; eauto.
  - (* U, R *)
    subst ord2 ord3.
    pose proof (allocf_regf _ _ _ _ _ _ P1 Erhs El) as Hrz. rewrite <- Erf in Hrz.
    assert (Hlr : lhs <> rhs) by (intros ->; congruence).
    destruct (tail_rebind s3 _ so (mk r_x r_x lr) out r_x lhs [(lhs, r_x); (rhs, lr)] P3 Hrx3
                ltac:(rewrite Eaf; exact Elhs) Hl (Hcorr _ _ _)
                ltac:(apply Hok; [exact Okx|exact Okx|eapply reg_ok_bound; eauto])
                ltac:(left; reflexivity)
                ltac:(intros v r [[= <- <-]|[[= <- <-]|[]]]; [left|right]; auto;
                      repeat split; auto; rewrite Eaf; assumption))
      as (s' & E & Post).
    rewrite E. eapply OpPost_pre; eauto.
  - (* U, M *)
    subst ord2 ord3.
    assert (Hlr : lhs <> rhs) by (intros ->; congruence).
    pose proof (get_register_post s3 [] _ P3) as GR. unfold bind at 1.
    destruct (get_register s3) as [[r_a s4]|c]; [|destruct GR]. destruct GR as (ord4 & GR).
    pose proof (gr_inv _ _ _ _ _ _ GR) as P4.
    destruct (Nat.eq_dec r_a r_x) as [Eclash|Hax].
    { assert (Hsmall : n < 3)
        by (eapply (clash_small s3 [] _ r_a r_x out 1); eauto using gr_src).
      subst r_a. unfold bind at 1, assert at 1. rewrite Nat.eqb_refl. exact Hsmall. }
    assert (Hrx4 : regf s4 r_x = Some out) by (apply (gr_reg _ _ _ _ _ _ GR); auto).
    assert (Erhs4 : allocf s4 rhs = Some lr).
    { apply (gr_mem _ _ _ _ _ _ GR); [rewrite Eaf; exact Erhs|assumption]. }
    assert (Elhs4 : allocf s4 lhs = None).
    { apply (gr_dom _ _ _ _ _ _ GR). rewrite Eaf. exact Elhs. }
    unfold bind at 1, assert at 1.
    pose proof Hax as Hax'. apply Nat.eqb_neq in Hax'. rewrite Hax'. cbn [negb]. unfold ret at 1. cbv beta iota.
    unfold bind at 1, assert at 1.
    pose proof Hlr as Hlr'. apply Nat.eqb_neq in Hlr'. rewrite Hlr'. cbn [negb]. unfold ret at 1. cbv beta iota.
    destruct (tail_store_rebind_bind s4 ord4 so (mk r_x r_x r_a) out r_x r_a lhs rhs lr
                [(lhs, r_x); (rhs, r_a)] P4 Hrx4 Elhs4 Hl Erhs4 ltac:(assumption) Hr
                (Hcorr _ _ _)
                ltac:(apply Hok; [eapply reg_ok_bound; eauto|eapply reg_ok_bound; eauto
                                 |eapply held_reg_ok; [exact P4|left; reflexivity]])
                ltac:(left; reflexivity)
                ltac:(intros v r [[= <- <-]|[[= <- <-]|[]]]; [left|right]; auto))
      as (s' & E & Post).
    rewrite E. eapply OpPost_pre_gr; eauto.
  - (* U, U *)
    subst ord2 ord3.
    destruct (Nat.eqb_spec lhs rhs) as [Elr|Hlr].
    + subst rhs.
      destruct (tail_rebind s3 _ so (mk r_x r_x r_x) out r_x lhs [(lhs, r_x); (lhs, r_x)] P3 Hrx3
                  ltac:(rewrite Eaf; exact Elhs) Hl (Hcorr _ _ _)
                  ltac:(apply Hok; exact Okx)
                  ltac:(left; reflexivity)
                  ltac:(intros v r [[= <- <-]|[[= <- <-]|[]]]; left; auto))
        as (s' & E & Post).
      rewrite E. eapply OpPost_pre; eauto.
    + pose proof (get_register_post s3 [] _ P3) as GR. unfold bind at 1.
      destruct (get_register s3) as [[r_a s4]|c]; [|destruct GR]. destruct GR as (ord4 & GR).
      pose proof (gr_inv _ _ _ _ _ _ GR) as P4.
      destruct (Nat.eq_dec r_a r_x) as [Eclash|Hax].
      { assert (Hsmall : n < 3)
          by (eapply (clash_small s3 [] _ r_a r_x out 1); eauto using gr_src).
        subst r_a. must_fail fail_T5 P4. exact Hsmall. }
      assert (Hrx4 : regf s4 r_x = Some out) by (apply (gr_reg _ _ _ _ _ _ GR); auto).
      assert (Elhs4 : allocf s4 lhs = None).
      { apply (gr_dom _ _ _ _ _ _ GR). rewrite Eaf. exact Elhs. }
      assert (Erhs4 : allocf s4 rhs = None).
      { apply (gr_dom _ _ _ _ _ _ GR). rewrite Eaf. exact Erhs. }
      destruct (tail_rebind_bind s4 ord4 so (mk r_x r_x r_a) out r_x r_a lhs rhs
                  [(lhs, r_x); (rhs, r_a)] P4 Hrx4 Elhs4 Hl Erhs4 Hr Hlr (Hcorr _ _ _)
                  ltac:(apply Hok; [eapply reg_ok_bound; eauto|eapply reg_ok_bound; eauto
                                   |eapply held_reg_ok; [exact P4|left; reflexivity]])
                  ltac:(left; reflexivity) ltac:(right; left; reflexivity)
                  ltac:(intros v r [[= <- <-]|[[= <- <-]|[]]]; [left|right]; auto))
        as (s' & E & Post).
      rewrite E. eapply OpPost_pre_gr; eauto.
Qed.

(* ---------- op_output ---------- *)
Lemma op_output_spec s ord arg i :
  PInv s [] [] ord -> arg < size ->
  exists s', op_output arg i s = Ok (tt, s') /\ OpPost s s' (OOutput arg i) None [arg].
Proof.
  intros P Ha. unfold op_output.
  destruct (get_allocation_post s [] ord arg P Ha)
    as (s1 & ord1 & E1 & P1 & Ea1 & Er1 & Eo1 & Eord1).
  rewrite (bind_ok _ _ _ _ _ E1).
  assert (S01 : SimStep s s1) by (apply SimStep_same; auto).
  assert (D01 : forall v, allocf s1 v = None <-> allocf s v = None)
    by (intros v; rewrite Ea1; tauto).
  destruct (allocf s arg) as [l|] eqn:Earg; unfold alloc_class.
  1: destruct (Nat.ltb l n) eqn:El.
  - apply Nat.ltb_lt in El.
    destruct (tail_out_reg s1 ord1 arg i l P1 ltac:(rewrite Ea1; exact Earg) El)
      as (s' & E & Post).
    exists s'. split; [exact E|]. eapply OpPost_pre; eauto.
  - apply Nat.ltb_ge in El.
    pose proof (get_register_post s1 [] _ P1) as GR. unfold bind at 1.
    destruct (get_register s1) as [[r_a s2]|c]; [|destruct GR]. destruct GR as (ord2 & GR).
    pose proof (gr_inv _ _ _ _ _ _ GR) as P2.
    assert (Earg2 : allocf s2 arg = Some l).
    { apply (gr_mem _ _ _ _ _ _ GR); [rewrite Ea1; exact Earg|assumption]. }
    destruct (tail_out_mem s2 ord2 arg i r_a l P2 Earg2 El Ha) as (s' & E & Post).
    exists s'. split; [exact E|]. eapply OpPost_pre_gr; eauto.
  - pose proof (get_register_post s1 [] _ P1) as GR. unfold bind at 1.
    destruct (get_register s1) as [[r_a s2]|c]; [|destruct GR]. destruct GR as (ord2 & GR).
    pose proof (gr_inv _ _ _ _ _ _ GR) as P2.
    assert (Earg2 : allocf s2 arg = None).
    { apply (gr_dom _ _ _ _ _ _ GR). rewrite Ea1. exact Earg. }
    destruct (tail_out_un s2 ord2 arg i r_a P2 Earg2 Ha) as (s' & E & Post).
    exists s'. split; [exact E|]. eapply OpPost_pre_gr; eauto.
Qed.

End Composite.
End Ops.
