(* SimplifyFacts.v — basic facts for the proof of VmData::simplify (SimplifyProof.v):
   the bind map of the workspace, get_or_insert_active / set_active, the
   live-list operations of SsaWf, splitting of valid_run, and a classification of
   the results of one [simplify_op] step into Output / Drop / Skip / Emit. *)
From Coq Require Import List Bool Arith Lia Permutation.
From FV Require Import Ops Tape Lru Alloc SsaWf Simplify LruProof
     SimplifyValidateProof TraceFacts AllocProof.
Import ListNotations.

(* ---------- the bind map ---------- *)
Definition bindf (w : ws) (i : nat) : option nat :=
  match nth_error (w_bind w) i with Some (Some b) => Some b | _ => None end.
Definition bf (w : ws) (i : nat) : nat :=
  match bindf w i with Some b => b | None => 0 end.

Fixpoint count_some (l : list (option nat)) : nat :=
  match l with
  | [] => 0
  | Some _ :: r => S (count_some r)
  | None :: r => count_some r
  end.

Lemma count_some_le l : count_some l <= length l.
Proof. induction l as [|[x|] l IH]; simpl; lia. Qed.

Lemma count_some_upd l : forall k v,
  nth_error l k = Some None -> count_some (list_upd l k (Some v)) = S (count_some l).
Proof.
  induction l as [|x l IH]; intros [|k] v H; simpl in *; try discriminate.
  - injection H as ->. reflexivity.
  - destruct x; simpl; rewrite (IH _ _ H); reflexivity.
Qed.

Lemma count_some_repeat n : count_some (repeat None n) = 0.
Proof. induction n; simpl; auto. Qed.

Lemma bindf_bf w i b : bindf w i = Some b -> bf w i = b.
Proof. unfold bf. intros ->. reflexivity. Qed.

Lemma bindf_lt w i b : bindf w i = Some b -> i < length (w_bind w).
Proof.
  unfold bindf. destruct (nth_error (w_bind w) i) eqn:E; [|discriminate].
  intros _. apply nth_error_Some. congruence.
Qed.

(* get_or_insert_active *)
Lemma goi_spec w a na w' :
  get_or_insert_active w a = Ok (na, w') ->
  a < length (w_bind w) /\ length (w_bind w') = length (w_bind w) /\
  bindf w' a = Some na /\
  (forall i, i <> a -> bindf w' i = bindf w i) /\
  ((bindf w a = Some na /\ w' = w) \/
   (bindf w a = None /\ na = w_count w /\ w_count w' = S (w_count w) /\
    count_some (w_bind w') = S (count_some (w_bind w)))).
Proof.
  unfold get_or_insert_active, bindf.
  destruct (nth_error (w_bind w) a) as [[b|]|] eqn:E; intros H; try discriminate.
  - injection H as <- <-. rewrite E.
    split; [apply nth_error_Some; congruence|]. split; [reflexivity|]. split; [reflexivity|].
    split; [reflexivity|]. left. split; reflexivity.
  - injection H as <- <-. simpl.
    assert (Ha : a < length (w_bind w)) by (apply nth_error_Some; congruence).
    split; [exact Ha|]. split; [apply list_upd_length|].
    rewrite nth_error_list_upd, Nat.eqb_refl.
    apply Nat.ltb_lt in Ha. rewrite Ha. split; [reflexivity|].
    split.
    + intros i Hi. rewrite nth_error_list_upd. apply Nat.eqb_neq in Hi. rewrite Hi. reflexivity.
    + right. repeat split; try reflexivity. apply count_some_upd, E.
Qed.

Lemma set_active_spec w x b w' :
  set_active w x b = Ok w' ->
  x < length (w_bind w) /\ length (w_bind w') = length (w_bind w) /\
  w_count w' = w_count w /\ bindf w' x = Some b /\
  (forall i, i <> x -> bindf w' i = bindf w i) /\
  (nth_error (w_bind w) x = Some None -> count_some (w_bind w') = S (count_some (w_bind w))).
Proof.
  unfold set_active, bindf. destruct (Nat.ltb x (length (w_bind w))) eqn:E; [|discriminate].
  intros H. injection H as <-. simpl.
  split; [apply Nat.ltb_lt, E|]. split; [apply list_upd_length|]. split; [reflexivity|].
  rewrite nth_error_list_upd, Nat.eqb_refl, E. split; [reflexivity|]. split.
  - intros i Hi. rewrite nth_error_list_upd. apply Nat.eqb_neq in Hi. rewrite Hi. reflexivity.
  - intros Hn. apply count_some_upd, Hn.
Qed.

Lemma active_spec w i r :
  active w i = Ok r ->
  nth_error (w_bind w) i = Some r /\ bindf w i = r.
Proof.
  unfold active, bindf. destruct (nth_error (w_bind w) i) as [v|]; [|discriminate].
  intros H. injection H as <-. split; [reflexivity|]. destruct v; reflexivity.
Qed.

(* get_or_insert_active over a list of arguments, in order *)
Fixpoint goi_list (args : list nat) (w : ws) : result (list nat * ws) :=
  match args with
  | [] => Ok ([], w)
  | a :: r =>
      match get_or_insert_active w a with
      | Err c => Err c
      | Ok (na, w1) =>
          match goi_list r w1 with
          | Err c => Err c
          | Ok (nr, w2) => Ok (na :: nr, w2)
          end
      end
  end.

Definition ws_mono (w w' : ws) : Prop :=
  length (w_bind w') = length (w_bind w) /\ w_count w <= w_count w' /\
  (forall i b, bindf w i = Some b -> bindf w' i = Some b).

Lemma ws_mono_refl w : ws_mono w w.
Proof. repeat split; auto. Qed.

Lemma ws_mono_trans w1 w2 w3 : ws_mono w1 w2 -> ws_mono w2 w3 -> ws_mono w1 w3.
Proof.
  intros (A1 & B1 & C1) (A2 & B2 & C2). split; [congruence|]. split; [lia|]. auto.
Qed.

Lemma goi_mono w a na w' : get_or_insert_active w a = Ok (na, w') -> ws_mono w w'.
Proof.
  intros H. destruct (goi_spec _ _ _ _ H) as (Ha & Hl & Hb & Ho & Hc).
  split; [exact Hl|]. split.
  - destruct Hc as [[_ ->]|(_ & _ & -> & _)]; lia.
  - intros i b Hi. destruct (Nat.eq_dec i a) as [->|Hne].
    + destruct Hc as [[_ ->]|(Hn & _)]; [exact Hi|congruence].
    + rewrite (Ho i Hne). exact Hi.
Qed.

Lemma goi_list_spec args : forall w cargs w',
  goi_list args w = Ok (cargs, w') ->
  ws_mono w w' /\ cargs = map (bf w') args /\
  (forall a, In a args -> bindf w' a <> None /\ a < length (w_bind w)) /\
  (forall i, ~ In i args -> bindf w' i = bindf w i).
Proof.
  induction args as [|a r IH]; intros w cargs w' H; simpl in H.
  - injection H as <- <-. split; [apply ws_mono_refl|]. split; [reflexivity|].
    split; [intros a []|reflexivity].
  - destruct (get_or_insert_active w a) as [[na w1]|] eqn:E1; [|discriminate].
    destruct (goi_list r w1) as [[nr w2]|] eqn:E2; [|discriminate].
    injection H as <- <-.
    destruct (IH _ _ _ E2) as (M2 & Hc & Hin & Hout).
    pose proof (goi_mono _ _ _ _ E1) as M1.
    destruct (goi_spec _ _ _ _ E1) as (Ha & Hl & Hb & Ho & _).
    split; [eapply ws_mono_trans; eassumption|]. split; [|split].
    + simpl. f_equal; [|exact Hc]. symmetry. apply bindf_bf. apply M2. exact Hb.
    + intros x [<-|Hx].
      * split; [|exact Ha]. destruct M2 as (_ & _ & M2). rewrite (M2 _ _ Hb). discriminate.
      * destruct (Hin x Hx) as [P Q]. split; [exact P|]. rewrite <- Hl. exact Q.
    + intros i Hi. simpl in Hi. rewrite Hout by tauto. apply Ho. intros ->. tauto.
Qed.

(* ---------- SsaWf list operations ---------- *)
Lemma add_nat_in x l : In x l -> add_nat x l = l.
Proof. intros H. unfold add_nat. apply mem_In in H. rewrite H. reflexivity. Qed.

Lemma add_nat_notin x l : ~ In x l -> add_nat x l = x :: l.
Proof. intros H. unfold add_nat. apply mem_false in H. rewrite H. reflexivity. Qed.

Lemma NoDup_add_nat x l : NoDup l -> NoDup (add_nat x l).
Proof.
  intros H. unfold add_nat. destruct (mem x l) eqn:E; [exact H|].
  constructor; [apply mem_false, E|exact H].
Qed.

Lemma NoDup_fold_add args l : NoDup l -> NoDup (fold_right add_nat l args).
Proof. intros H. induction args; simpl; [exact H|apply NoDup_add_nat, IHargs]. Qed.

Lemma NoDup_remove_nat x l : NoDup l -> NoDup (remove_nat x l).
Proof. intros H. unfold remove_nat. apply NoDup_filter, H. Qed.

Lemma remove_nat_length x l : NoDup l -> In x l -> S (length (remove_nat x l)) = length l.
Proof.
  induction l as [|y l IH]; intros Hn Hi; [destruct Hi|].
  inversion Hn as [|? ? Hy Hl]; subst. simpl.
  destruct (Nat.eqb x y) eqn:E; simpl.
  - apply Nat.eqb_eq in E. subst y. f_equal.
    unfold remove_nat. clear IH Hn Hi Hl. induction l as [|z l IH]; [reflexivity|].
    simpl. destruct (Nat.eqb x z) eqn:E; simpl.
    + apply Nat.eqb_eq in E. subst. exfalso. apply Hy. left. reflexivity.
    + f_equal. apply IH. intros H. apply Hy. right. exact H.
  - f_equal. apply IH; [exact Hl|]. destruct Hi as [->|Hi]; [|exact Hi].
    rewrite Nat.eqb_refl in E. discriminate.
Qed.

Lemma NoDup_same_length (l l' : list nat) :
  NoDup l -> NoDup l' -> (forall x, In x l <-> In x l') -> length l = length l'.
Proof. intros H1 H2 H. apply Permutation_length, NoDup_Permutation; assumption. Qed.

Lemma wf_live_nil {I} bound (t : list (op I)) live defd :
  wf_walk bound t (live, defd) = true -> t = [] -> live = [].
Proof. intros H ->. simpl in H. destruct live; [reflexivity|discriminate]. Qed.

(* ---------- counting ---------- *)
Section Counts.
Context {I : Type}.
Notation op := (Tape.op I).

Lemma count_outputs_rev (t : list op) : count_outputs (rev t) = count_outputs t.
Proof.
  unfold count_outputs. induction t as [|o t IH]; simpl; [reflexivity|].
  rewrite filter_app, app_length, IH. simpl. destruct o; simpl; lia.
Qed.

Lemma count_choices_cons (o : op) t :
  count_choices (o :: t) = (if op_has_choice o then 1 else 0) + count_choices t.
Proof. unfold count_choices. simpl. destruct (op_has_choice o); reflexivity. Qed.

Lemma count_outputs_cons (o : op) t :
  count_outputs (o :: t) = (match o with OOutput _ _ => 1 | _ => 0 end) + count_outputs t.
Proof. unfold count_outputs. simpl. destruct o; reflexivity. Qed.

Lemma count_choices_app (a b : list op) : count_choices (a ++ b) = count_choices a + count_choices b.
Proof. unfold count_choices. rewrite filter_app, app_length. reflexivity. Qed.

Lemma count_outputs_app (a b : list op) : count_outputs (a ++ b) = count_outputs a + count_outputs b.
Proof. unfold count_outputs. rewrite filter_app, app_length. reflexivity. Qed.

Lemma defining_ssa (o : op) : defining o = true -> is_ssa_op o = true.
Proof. destruct o; simpl; congruence. Qed.
End Counts.

(* ---------- valid_run over an append ---------- *)
Section ValidApp.
Context {V I : Type}.
Variable sem : Sem V I.
Variable inputs : list V.
Notation op := (Tape.op I).

Lemma run_fwd_app (a b : list op) s :
  run_fwd sem inputs (a ++ b) s = run_fwd sem inputs b (run_fwd sem inputs a s).
Proof. unfold run_fwd. apply fold_left_app. Qed.

Lemma valid_run_app (a b : list op) : forall s t1 t2,
  length t1 = count_choices a ->
  valid_run sem inputs (a ++ b) s (t1 ++ t2) ->
  valid_run sem inputs a s t1 /\ valid_run sem inputs b (run_fwd sem inputs a s) t2.
Proof.
  induction a as [|o a IH]; intros s t1 t2 Hl H.
  - destruct t1; [|discriminate]. simpl in *. split; [exact Logic.I|exact H].
  - rewrite count_choices_cons in Hl. simpl in H |- *.
    destruct (op_has_choice o).
    + destruct t1 as [|c t1]; [simpl in Hl; lia|]. simpl in H. destruct H as [Hc H].
      simpl in Hl. destruct (IH _ t1 t2 ltac:(lia) H) as [P Q].
      split; [split; assumption|exact Q].
    + simpl in Hl. destruct (IH _ t1 t2 Hl H) as [P Q]. split; assumption.
Qed.
End ValidApp.

(* ---------- classification of one simplify_op step ---------- *)
Section Classify.
Context {V I : Type}.
Variable sem : Sem V I.
Variable inputs : list V.
Hypothesis copy_id : forall v, s_un sem UCopy v = v.
Notation op := (Tape.op I).
Notation mst := (mstate (V:=V)).

(* the trace-validity premise for one op: [cs] is the (at most one) entry consumed *)
Definition ch_pre (s : mst) (o : op) (cs : list tchoice) : Prop :=
  match cs with c :: _ => choice_ok sem s o c | [] => True end.

Definition ch_len (o : op) : nat := if op_has_choice o then 1 else 0.

Definition act_spec (o : op) (ni : nat) (w : ws) (cs : list tchoice) (act : @action I) : Prop :=
  match act with
  | Skip w1 =>
      exists x, In x (op_args o) /\ nth_error (w_bind w) x = Some None /\
                set_active w x ni = Ok w1 /\
                (forall s : mst, ch_pre s o cs -> opval sem inputs (m_slots s) o = m_slots s x)
  | Emit o' w1 cc =>
      exists pargs cargs,
        incl pargs (op_args o) /\ goi_list pargs w = Ok (cargs, w1) /\
        defining o' = true /\ op_out o' = Some ni /\ op_args o' = cargs /\
        cc = ch_len o' /\
        (forall (s : mst) (ec : env (V:=V)),
            (forall a, In a pargs -> ec (bf w1 a) = m_slots s a) ->
            ch_pre s o cs -> opval sem inputs ec o' = opval sem inputs (m_slots s) o)
  end.

Lemma goi_list_1 w a na w1 :
  get_or_insert_active w a = Ok (na, w1) -> goi_list [a] w = Ok ([na], w1).
Proof. intros H. simpl. rewrite H. reflexivity. Qed.

Lemma goi_list_2 w a b na nb w1 w2 :
  get_or_insert_active w a = Ok (na, w1) -> get_or_insert_active w1 b = Ok (nb, w2) ->
  goi_list [a; b] w = Ok ([na; nb], w2).
Proof. intros H1 H2. simpl. rewrite H1, H2. reflexivity. Qed.

Lemma active_goi w x nx : active w x = Ok (Some nx) -> get_or_insert_active w x = Ok (nx, w).
Proof.
  unfold active, get_or_insert_active. destruct (nth_error (w_bind w) x) as [[b|]|]; try discriminate.
  intros H. injection H as ->. reflexivity.
Qed.

(* the [side] pattern: the clause takes the value of operand x *)
Lemma side_class (o : op) ni w x (chs' : list tchoice) (act : @action I) (chs'' : list tchoice) cs :
  In x (op_args o) ->
  (forall s : mst, ch_pre s o cs -> opval sem inputs (m_slots s) o = m_slots s x) ->
  match active w x with
  | Err c => Err c
  | Ok (Some nx) => Ok (Emit (OUn UCopy ni nx) w 0, chs')
  | Ok None => match set_active w x ni with Ok w' => Ok (Skip w', chs') | Err c => Err c end
  end = Ok (act, chs'') ->
  chs'' = chs' /\ act_spec o ni w cs act.
Proof.
  intros Hx Hval H. destruct (active w x) as [[nx|]|] eqn:Ea; [| |discriminate].
  - injection H as <- <-. split; [reflexivity|]. simpl.
    pose proof (goi_list_1 _ _ _ _ (active_goi _ _ _ Ea)) as Hg.
    exists [x], [nx]. split; [intros y [<-|[]]; exact Hx|]. split; [exact Hg|].
    repeat split.
    intros s ec Hag Hc. simpl. rewrite copy_id.
    destruct (goi_list_spec _ _ _ _ Hg) as (_ & Hm & _). simpl in Hm. injection Hm as ->.
    rewrite (Hag x (or_introl eq_refl)). symmetry. apply Hval, Hc.
  - destruct (set_active w x ni) as [w'|] eqn:Es; [|discriminate].
    injection H as <- <-. split; [reflexivity|]. simpl. exists x.
    split; [exact Hx|]. split; [apply active_spec in Ea; apply Ea|]. split; [exact Es|exact Hval].
Qed.

Lemma next_choice_spec chs c chs' : next_choice chs = Ok (c, chs') -> chs = [c] ++ chs'.
Proof. destruct chs; simpl; [discriminate|]. intros H. injection H as <- <-. reflexivity. Qed.

Lemma sa_class (o : op) ni w chs act chs' :
  defining o = true -> op_out o <> None ->
  simplify_active o ni w chs = Ok (act, chs') ->
  exists cs, chs = cs ++ chs' /\ length cs = ch_len o /\ act_spec o ni w cs act.
Proof.
  intros Hd _ H. destruct o; try discriminate; unfold ch_len; cbn [simplify_active op_has_choice] in *.
  - (* Input *)
    injection H as <- <-. exists []. split; [reflexivity|]. split; [reflexivity|].
    exists [], []. repeat split. intros a [].
  - (* CopyImm *)
    injection H as <- <-. exists []. split; [reflexivity|]. split; [reflexivity|].
    exists [], []. repeat split. intros a [].
  - (* Un *)
    assert (Hgen : match get_or_insert_active w arg with
                   | Ok (na, w') => Ok (Emit (OUn u ni na) w' 0, chs)
                   | Err c => Err c
                   end = Ok (act, chs') ->
                   exists cs, chs = cs ++ chs' /\ length cs = 0 /\ act_spec (OUn u out arg) ni w cs act).
    { clear H. intros H. destruct (get_or_insert_active w arg) as [[na w1]|] eqn:Eg; [|discriminate].
      injection H as <- <-. exists []. split; [reflexivity|]. split; [reflexivity|].
      pose proof (goi_list_1 _ _ _ _ Eg) as Hg.
      exists [arg], [na]. split; [apply incl_refl|]. split; [exact Hg|]. repeat split.
      intros s ec Hag _. simpl.
      destruct (goi_list_spec _ _ _ _ Hg) as (_ & Hm & _). simpl in Hm. injection Hm as ->.
      rewrite (Hag arg (or_introl eq_refl)). reflexivity. }
    destruct u; try (exact (Hgen H)).
    exists []. assert (Hs := side_class (OUn UCopy out arg) ni w arg chs act chs' [] (or_introl eq_refl)).
    destruct Hs as [-> Hs]; [|exact H|].
    { intros s _. simpl. apply copy_id. }
    split; [reflexivity|]. split; [reflexivity|exact Hs].
  - (* BinRR *)
    assert (Hboth : forall cc chs1 cs, cc = (if bop_has_choice b then 1 else 0) ->
       match get_or_insert_active w lhs with
       | Err c => Err c
       | Ok (nl, w1) =>
           match get_or_insert_active w1 rhs with
           | Err c => Err c
           | Ok (nr, w2) => Ok (Emit (OBinRR b ni nl nr) w2 cc, chs1)
           end
       end = Ok (act, chs') ->
       chs' = chs1 /\ act_spec (OBinRR b out lhs rhs) ni w cs act).
    { clear H. intros cc chs1 cs Hcc H.
      destruct (get_or_insert_active w lhs) as [[nl w1]|] eqn:E1; [|discriminate].
      destruct (get_or_insert_active w1 rhs) as [[nr w2]|] eqn:E2; [|discriminate].
      injection H as <- <-. split; [reflexivity|].
      pose proof (goi_list_2 _ _ _ _ _ _ _ E1 E2) as Hg.
      exists [lhs; rhs], [nl; nr]. split; [apply incl_refl|]. split; [exact Hg|].
      split; [reflexivity|]. split; [reflexivity|]. split; [reflexivity|]. split; [exact Hcc|].
      intros s ec Hag _. simpl.
      destruct (goi_list_spec _ _ _ _ Hg) as (_ & Hm & _). simpl in Hm. injection Hm as -> ->.
      rewrite (Hag lhs (or_introl eq_refl)), (Hag rhs (or_intror (or_introl eq_refl))). reflexivity. }
    destruct (bop_has_choice b) eqn:Eb.
    + destruct (next_choice chs) as [[c chs1]|] eqn:En; [|discriminate].
      apply next_choice_spec in En. subst chs. exists [c].
      destruct c; try discriminate.
      * destruct (side_class (OBinRR b out lhs rhs) ni w lhs chs1 act chs' [TLeft] (or_introl eq_refl))
          as [-> Hs]; [|exact H|].
        { intros s Hc. exact Hc. }
        split; [reflexivity|]. split; [reflexivity|exact Hs].
      * destruct (side_class (OBinRR b out lhs rhs) ni w rhs chs1 act chs' [TRight] (or_intror (or_introl eq_refl)))
          as [-> Hs]; [|exact H|].
        { intros s Hc. exact Hc. }
        split; [reflexivity|]. split; [reflexivity|exact Hs].
      * destruct (Hboth 1 chs1 [TBoth] eq_refl H) as [-> Hs].
        split; [reflexivity|]. split; [reflexivity|exact Hs].
    + exists []. destruct (Hboth 0 chs [] eq_refl H) as [-> Hs].
      split; [reflexivity|]. split; [reflexivity|exact Hs].
  - (* BinRI *)
    assert (Hgen : forall cc chs1 cs, cc = (if bop_has_choice b then 1 else 0) ->
       match get_or_insert_active w arg with
       | Ok (na, w') => Ok (Emit (OBinRI b ni na imm) w' cc, chs1)
       | Err c => Err c
       end = Ok (act, chs') ->
       chs' = chs1 /\ act_spec (OBinRI b out arg imm) ni w cs act).
    { clear H. intros cc chs1 cs Hcc H.
      destruct (get_or_insert_active w arg) as [[na w1]|] eqn:Eg; [|discriminate].
      injection H as <- <-. split; [reflexivity|].
      pose proof (goi_list_1 _ _ _ _ Eg) as Hg.
      exists [arg], [na]. split; [apply incl_refl|]. split; [exact Hg|].
      split; [reflexivity|]. split; [reflexivity|]. split; [reflexivity|]. split; [exact Hcc|].
      intros s ec Hag _. simpl.
      destruct (goi_list_spec _ _ _ _ Hg) as (_ & Hm & _). simpl in Hm. injection Hm as ->.
      rewrite (Hag arg (or_introl eq_refl)). reflexivity. }
    destruct (bop_has_choice b) eqn:Eb.
    + destruct (next_choice chs) as [[c chs1]|] eqn:En; [|discriminate].
      apply next_choice_spec in En. subst chs. exists [c].
      destruct c; try discriminate.
      * destruct (side_class (OBinRI b out arg imm) ni w arg chs1 act chs' [TLeft] (or_introl eq_refl))
          as [-> Hs]; [|exact H|].
        { intros s Hc. exact Hc. }
        split; [reflexivity|]. split; [reflexivity|exact Hs].
      * injection H as <- <-. split; [reflexivity|]. split; [reflexivity|].
        exists [], []. split; [intros a []|]. repeat split.
        intros s ec _ Hc. simpl in *. symmetry. exact Hc.
      * destruct (Hgen 1 chs1 [TBoth] eq_refl H) as [-> Hs].
        split; [reflexivity|]. split; [reflexivity|exact Hs].
    + exists []. destruct (Hgen 0 chs [] eq_refl H) as [-> Hs].
      split; [reflexivity|]. split; [reflexivity|exact Hs].
  - (* BinIR *)
    destruct (bop_has_choice b) eqn:Eb; [discriminate|].
    destruct (get_or_insert_active w arg) as [[na w1]|] eqn:Eg; [|discriminate].
    injection H as <- <-. exists []. split; [reflexivity|]. split; [reflexivity|].
    pose proof (goi_list_1 _ _ _ _ Eg) as Hg.
    exists [arg], [na]. split; [apply incl_refl|]. split; [exact Hg|]. repeat split.
    intros s ec Hag _. simpl.
    destruct (goi_list_spec _ _ _ _ Hg) as (_ & Hm & _). simpl in Hm. injection Hm as ->.
    rewrite (Hag arg (or_introl eq_refl)). reflexivity.
Qed.

(* the four shapes of a successful step *)
Inductive step_class (st : @sst I) (o : op) (st1 : @sst I) : Prop :=
| SC_output reg i nr :
    o = OOutput reg i ->
    get_or_insert_active (s_ws st) reg = Ok (nr, s_ws st1) ->
    s_out st1 = OOutput nr i :: s_out st ->
    s_choices st1 = s_choices st -> s_cc st1 = s_cc st -> s_oc st1 = S (s_oc st) ->
    step_class st o st1
| SC_drop index cs :
    op_out o = Some index -> defining o = true ->
    s_choices st = cs ++ s_choices st1 -> length cs = ch_len o ->
    s_oc st1 = s_oc st ->
    nth_error (w_bind (s_ws st)) index = Some None ->
    s_ws st1 = s_ws st -> s_out st1 = s_out st -> s_cc st1 = s_cc st ->
    step_class st o st1
| SC_active index cs ni act :
    op_out o = Some index -> defining o = true ->
    s_choices st = cs ++ s_choices st1 -> length cs = ch_len o ->
    s_oc st1 = s_oc st ->
    bindf (s_ws st) index = Some ni ->
    act_spec o ni (s_ws st) cs act ->
    match act with
    | Skip w1 => s_ws st1 = w1 /\ s_out st1 = s_out st /\ s_cc st1 = s_cc st
    | Emit o' w1 cc => s_ws st1 = w1 /\ s_out st1 = o' :: s_out st /\ s_cc st1 = s_cc st + cc
    end ->
    step_class st o st1.

Lemma simplify_op_class st (o : op) st1 :
  is_ssa_op o = true -> simplify_op st o = Ok st1 -> step_class st o st1.
Proof.
  intros Hssa H.
  destruct (defining o) eqn:Hd.
  - assert (Hout : exists index, op_out o = Some index) by (destruct o; try discriminate; eexists; reflexivity).
    destruct Hout as [index Hout].
    assert (E : simplify_op st o =
      match active (s_ws st) index with
      | Err c => Err c
      | Ok None =>
          if op_has_choice o then
            match next_choice (s_choices st) with
            | Err c => Err c
            | Ok (_, chs') => Ok {| s_ws := s_ws st; s_choices := chs'; s_out := s_out st; s_cc := s_cc st; s_oc := s_oc st |}
            end
          else Ok st
      | Ok (Some ni) =>
          match simplify_active o ni (s_ws st) (s_choices st) with
          | Err c => Err c
          | Ok (Emit o' w' cc, chs') =>
              Ok {| s_ws := w'; s_choices := chs'; s_out := o' :: s_out st; s_cc := s_cc st + cc; s_oc := s_oc st |}
          | Ok (Skip w', chs') =>
              Ok {| s_ws := w'; s_choices := chs'; s_out := s_out st; s_cc := s_cc st; s_oc := s_oc st |}
          end
      end).
    { destruct o; try discriminate; simpl in Hout; injection Hout as ->; reflexivity. }
    rewrite E in H. clear E.
    destruct (active (s_ws st) index) as [[ni|]|] eqn:Ea; [| |discriminate].
    + destruct (simplify_active o ni (s_ws st) (s_choices st)) as [[act chs']|] eqn:Es; [|discriminate].
      destruct (sa_class o ni _ _ _ _ Hd ltac:(congruence) Es) as (cs & Hcs & Hl & Hact).
      apply active_spec in Ea. destruct Ea as [_ Ea].
      destruct act as [o' w1 cc|w1]; injection H as <-;
        eapply (SC_active _ _ _ index cs ni); eauto; simpl; auto.
    + apply active_spec in Ea. destruct Ea as [Ea _].
      unfold ch_len. destruct (op_has_choice o) eqn:Ec.
      * destruct (next_choice (s_choices st)) as [[c chs']|] eqn:En; [|discriminate].
        injection H as <-. apply next_choice_spec in En.
        eapply (SC_drop _ _ _ index [c]); eauto. unfold ch_len. rewrite Ec. reflexivity.
      * injection H as <-. eapply (SC_drop _ _ _ index []); eauto. unfold ch_len. rewrite Ec. reflexivity.
  - destruct o; try discriminate. simpl in H.
    destruct (get_or_insert_active (s_ws st) arg) as [[nr w1]|] eqn:Eg; [|discriminate].
    injection H as <-. eapply SC_output; eauto.
Qed.

End Classify.
