(* TraceFacts.v — structural facts about traces, for every value type and semantics. *)
From Coq Require Import List Bool Arith Lia.
From FV Require Import Ops Tape.
Import ListNotations.

Section TraceFacts.
Context {V I : Type}.
Variable sem : Sem V I.
Variable inputs : list V.

Lemma step_trace_length (s : mstate (V:=V)) (o : op I) :
  length (m_trace (step sem inputs s o)) = length (m_trace s) + (if op_has_choice o then 1 else 0).
Proof.
  destruct o; cbn [step op_has_choice]; cbn [m_trace set_slot]; try lia;
    destruct (bop_has_choice b); cbn [m_trace set_slot push_choice length]; lia.
Qed.

Lemma run_trace_length ops : forall (s : mstate (V:=V)),
  length (m_trace (run_fwd sem inputs ops s)) = length (m_trace s) + count_choices ops.
Proof.
  induction ops as [|o ops IH]; intros s; unfold run_fwd in *; simpl.
  - unfold count_choices; simpl; lia.
  - rewrite IH, step_trace_length. unfold count_choices; simpl.
    destruct (op_has_choice o); simpl; lia.
Qed.

Lemma count_choices_rev (t : list (op I)) : count_choices (rev t) = count_choices t.
Proof.
  unfold count_choices. induction t as [|o t IH]; simpl; [reflexivity|].
  rewrite filter_app, app_length, IH. simpl. destruct (op_has_choice o); simpl; lia.
Qed.

(* one entry per choice clause of the tape *)
Theorem trace_length tape e0 out0 :
  length (m_trace (eval_tape sem tape inputs e0 out0)) = count_choices tape.
Proof. unfold eval_tape. rewrite run_trace_length. simpl. apply count_choices_rev. Qed.

Lemma step_out_length (s : mstate (V:=V)) (o : op I) :
  length (m_out (step sem inputs s o)) = length (m_out s).
Proof.
  assert (Hl : forall (l : list V) k v, length (list_upd l k v) = length l).
  { induction l as [|x l IHl]; intros [|k] v; simpl; auto. }
  destruct o; simpl; auto; destruct (bop_has_choice b); simpl; auto.
Qed.

Lemma run_out_length ops : forall (s : mstate (V:=V)),
  length (m_out (run_fwd sem inputs ops s)) = length (m_out s).
Proof.
  induction ops as [|o ops IH]; intros s; unfold run_fwd in *; simpl; [reflexivity|].
  rewrite IH. apply step_out_length.
Qed.

(* exactly the requested number of outputs *)
Theorem outputs_length tape e0 out0 :
  length (m_out (eval_tape sem tape inputs e0 out0)) = length out0.
Proof. unfold eval_tape. rewrite run_out_length. reflexivity. Qed.

(* the entry recorded for a choice clause is the choice function of the operand values *)
Lemma step_trace_entry (s : mstate (V:=V)) (o : op I) :
  m_trace (step sem inputs s o) =
  match o with
  | OBinRR b _ l r => if bop_has_choice b then s_ch_rr sem b (m_slots s l) (m_slots s r) :: m_trace s else m_trace s
  | OBinRI b _ a imm => if bop_has_choice b then s_ch_ri sem b (m_slots s a) imm :: m_trace s else m_trace s
  | _ => m_trace s
  end.
Proof. destruct o; simpl; try reflexivity; destruct (bop_has_choice b); reflexivity. Qed.

End TraceFacts.

(* ---- the "simplify" flag: a trace is reported iff some clause is decided ----- *)
Definition trace_decided (t : list tchoice) : bool :=
  existsb (fun c => match c with TBoth => false | _ => true end) t.

Lemma no_trace_iff_all_both (t : list tchoice) :
  trace_decided t = false <-> Forall (fun c => c = TBoth) t.
Proof.
  unfold trace_decided. induction t as [|c t IH]; simpl.
  - split; [constructor | reflexivity].
  - split.
    + intros H. apply orb_false_iff in H as [Hc Ht]. constructor; [destruct c; try discriminate; reflexivity | now apply IH].
    + intros H. inversion H as [|? ? Hc Ht]; subst. simpl. now apply IH.
Qed.
