(* CtxImport.v — P4: Context::import as substitution.  [tden] is the denotation of a
   tree table computed directly (remaps evaluate their coordinate expressions in the
   outer environment and the target in the updated one); [import_rec_sound] says the
   imported node evaluates to exactly that, provided the direct evaluation never
   passes through a zero where a rewrite could change its sign ([tgood]). *)
From Coq Require Import List Bool Arith ZArith Lia.
From Flocq Require Import IEEE754.BinarySingleNaN.
From FV Require Import F32 Ops Tape Alloc Flatten F32Sem CtxEval FlattenLib FlattenPass2 F32Facts Ctx CtxBase CtxCtors CtxSem.
Import ListNotations.
Local Open Scope nat_scope.

Section Import.
Variable o : oracle.
Notation val := (ctx_eval (f32_sem o)).

Definition set_axes (env : nat -> f32) (vx vy vz : f32) : nat -> f32 :=
  fun v => match v with 0 => vx | 1 => vy | 2 => vz | _ => env v end.

Definition mat_at (mat : list f32) (i j : nat) : f32 := nth (4 * i + j) mat fzero.

(* one output coordinate of an affine map, in the order import computes it *)
Definition aff_row (mat : list f32) (i : nat) (X Y Z : f32) : f32 :=
  fadd (fadd (fmul (mat_at mat i 0) X) (fmul (mat_at mat i 1) Y))
       (fadd (fmul (mat_at mat i 2) Z) (mat_at mat i 3)).

(* the denotation of node [i] of the table under [env] *)
Fixpoint tden (fuel : nat) (t : list tnode) (env : nat -> f32) (i : nat) : f32 :=
  match fuel with
  | O => fnan
  | S f =>
      match nth_error t i with
      | None => fnan
      | Some (TConst v) => v
      | Some (TInput v) => env v
      | Some (TUn u a) => f32_un o u (tden f t env a)
      | Some (TBin p l r) => f32_bin o p (tden f t env l) (tden f t env r)
      | Some (TRemapAxes target x y z) =>
          tden f t (set_axes env (tden f t env x) (tden f t env y) (tden f t env z)) target
      | Some (TRemapAffine target mat) =>
          let X := env 0 in let Y := env 1 in let Z := env 2 in
          tden f t (set_axes env (aff_row mat 0 X Y Z) (aff_row mat 1 X Y Z) (aff_row mat 2 X Y Z)) target
      end
  end.

Definition nz (x : f32) : Prop := is_zerob x = false.

(* an affine row is built with add and mul only, for which [eqz] is a congruence:
   zero (and one) matrix entries are fine, only the row value itself must not be a
   zero (and 0 * inf must not occur) *)
Definition row_good (mat : list f32) (i : nat) (X Y Z : f32) : Prop :=
  let m := mat_at mat i in
  bin_side BMul (m 0) X /\ bin_side BMul (m 1) Y /\ bin_side BMul (m 2) Z /\
  nz (aff_row mat i X Y Z).

(* the direct evaluation never produces a zero (constants included), and the
   mul / div side conditions of P3 hold at every operation *)
Fixpoint tgood (fuel : nat) (t : list tnode) (env : nat -> f32) (i : nat) : Prop :=
  match fuel with
  | O => True
  | S f =>
      match nth_error t i with
      | None => True
      | Some (TConst v) => nz v
      | Some (TInput v) => True
      | Some (TUn u a) => tgood f t env a /\ nz (f32_un o u (tden f t env a))
      | Some (TBin p l r) =>
          tgood f t env l /\ tgood f t env r /\
          bin_side p (tden f t env l) (tden f t env r) /\
          nz (f32_bin o p (tden f t env l) (tden f t env r))
      | Some (TRemapAxes target x y z) =>
          tgood f t env x /\ tgood f t env y /\ tgood f t env z /\
          tgood f t (set_axes env (tden f t env x) (tden f t env y) (tden f t env z)) target
      | Some (TRemapAffine target mat) =>
          let X := env 0 in let Y := env 1 in let Z := env 2 in
          row_good mat 0 X Y Z /\ row_good mat 1 X Y Z /\ row_good mat 2 X Y Z /\
          tgood f t (set_axes env (aff_row mat 0 X Y Z) (aff_row mat 1 X Y Z) (aff_row mat 2 X Y Z)) target
      end
  end.

Definition no_copy (t : list tnode) : Prop :=
  forall i u a, nth_error t i = Some (TUn u a) -> u <> UCopy.

(* ---- one row of an affine remap --------------------------------------------- *)
Definition arow (mat : list f32) (ax ay az : nat) (c0 : ctx) (i : nat) : R :=
  let m := mat_at mat in
  bindR (constant c0 (m i 0)) (fun c1 k0 => bindR (c_mul o c1 k0 ax) (fun c2 a =>
  bindR (constant c2 (m i 1)) (fun c3 k1 => bindR (c_mul o c3 k1 ay) (fun c4 b =>
  bindR (constant c4 (m i 2)) (fun c5 k2 => bindR (c_mul o c5 k2 az) (fun c6 cc =>
  bindR (constant c6 (m i 3)) (fun c7 d =>
  bindR (c_add o c7 a b) (fun c8 ab =>
  bindR (c_add o c8 cc d) (fun c9 cd => c_add o c9 ab cd))))))))).

Lemma import_rec_S f t c ax ay az i :
  import_rec o (S f) t c (ax, ay, az) i =
  match nth_error t i with
  | None => Err 121
  | Some (TConst v) => constant c v
  | Some (TInput v) =>
      match v with 0 => Ok (c, ax) | 1 => Ok (c, ay) | 2 => Ok (c, az) | _ => var c v end
  | Some (TUn u a) => bindR (import_rec o f t c (ax, ay, az) a) (fun c1 na => op_unary o c1 na u)
  | Some (TBin p l r) =>
      bindR (import_rec o f t c (ax, ay, az) r) (fun c1 nr =>
      bindR (import_rec o f t c1 (ax, ay, az) l) (fun c2 nl => build_bin o c2 p nl nr))
  | Some (TRemapAxes target x y z) =>
      bindR (import_rec o f t c (ax, ay, az) z) (fun c1 nz =>
      bindR (import_rec o f t c1 (ax, ay, az) y) (fun c2 ny =>
      bindR (import_rec o f t c2 (ax, ay, az) x) (fun c3 nx =>
      import_rec o f t c3 (nx, ny, nz) target)))
  | Some (TRemapAffine target mat) =>
      bindR (arow mat ax ay az c 0) (fun c1 nx => bindR (arow mat ax ay az c1 1) (fun c2 ny =>
      bindR (arow mat ax ay az c2 2) (fun c3 nz => import_rec o f t c3 (nx, ny, nz) target)))
  end.
Proof. reflexivity. Qed.

(* ---- steps: structure + value ------------------------------------------------ *)

Lemma reach_goodc_wf c c' : arena_wf c -> reach goodc c c' -> arena_wf c'.
Proof.
  intros W R. eapply reach_wf; eauto. eapply reach_mono; [|exact R]. apply goodc_wfnode.
Qed.

Lemma bindR_ok r k c' n :
  bindR r k = Ok (c', n) -> exists c1 n1, r = Ok (c1, n1) /\ k c1 n1 = Ok (c', n).
Proof. destruct r as [[c1 n1]|]; simpl; [eauto | discriminate]. Qed.

Lemma step_constant c v c1 k :
  arena_wf c -> constant c v = Ok (c1, k) ->
  reach goodc c c1 /\ k < length c1 /\ arena_wf c1 /\
  (nz v -> forall env, val c1 env k = v).
Proof.
  intros WF E. destruct (constant_spec c v) as (c' & n & E' & Rch & L & _).
  rewrite E in E'. inversion E'; subst c' n.
  split; auto. split; auto. split; [eapply reach_goodc_wf; eauto|].
  intros Z env. apply (constant_sound o c v c1 k env WF E). exact Z.
Qed.

Lemma step_bin c p a b c1 n :
  arena_wf c -> build_bin o c p a b = Ok (c1, n) ->
  a < length c /\ b < length c /\ reach goodc c c1 /\ n < length c1 /\ arena_wf c1 /\
  (forall env, bin_side p (val c env a) (val c env b) ->
               nz (f32_bin o p (val c env a) (val c env b)) ->
               val c1 env n = f32_bin o p (val c env a) (val c env b)).
Proof.
  intros WF E. destruct (cs_ok _ _ (build_bin_spec o p) _ _ _ _ _ E) as (La & Lb & Rch & L).
  repeat split; auto. eapply reach_goodc_wf; eauto.
  intros env S Z. apply (build_bin_exact o c p a b c1 n env WF E S Z).
Qed.

Lemma step_mul c a b c1 n :
  arena_wf c -> c_mul o c a b = Ok (c1, n) ->
  a < length c /\ b < length c /\ reach goodc c c1 /\ n < length c1 /\ arena_wf c1 /\
  (forall env, bin_side BMul (val c env a) (val c env b) ->
               nz (fmul (val c env a) (val c env b)) ->
               val c1 env n = fmul (val c env a) (val c env b)).
Proof. apply (step_bin c BMul). Qed.

Lemma step_add c a b c1 n :
  arena_wf c -> c_add o c a b = Ok (c1, n) ->
  a < length c /\ b < length c /\ reach goodc c c1 /\ n < length c1 /\ arena_wf c1 /\
  (forall env, nz (fadd (val c env a) (val c env b)) ->
               val c1 env n = fadd (val c env a) (val c env b)).
Proof.
  intros WF E. destruct (step_bin c BAdd a b c1 n WF E) as (A & B & C & D & F & G).
  repeat split; auto. intros env Z. apply G; auto. exact I.
Qed.

Lemma rv c c' env k : reach goodc c c' -> k < length c -> val c' env k = val c env k.
Proof. intros. eapply reach_val; eauto. Qed.

Lemma bin_side_mul_eqz x x' y y' : eqz x' x -> eqz y' y -> bin_side BMul x y -> bin_side BMul x' y'.
Proof.
  intros Ex Ey [S1 S2]. split; intros Z.
  - apply (eqz_finite y y'); [apply eqz_sym; auto|]. apply S1. rewrite <- (eqz_zero_iff _ _ Ex). auto.
  - apply (eqz_finite x x'); [apply eqz_sym; auto|]. apply S2. rewrite <- (eqz_zero_iff _ _ Ey). auto.
Qed.

(* the steps of a row, up to the sign of zero *)
Lemma stepz_constant c v c1 k :
  arena_wf c -> constant c v = Ok (c1, k) ->
  reach goodc c c1 /\ k < length c1 /\ arena_wf c1 /\ forall env, eqz (val c1 env k) v.
Proof.
  intros WF E. destruct (step_constant c v c1 k WF E) as (A & B & C & _).
  repeat split; auto. intros env. apply (constant_sound o c v c1 k env WF E).
Qed.

Lemma stepz_mul c a b c1 n :
  arena_wf c -> c_mul o c a b = Ok (c1, n) ->
  reach goodc c c1 /\ n < length c1 /\ arena_wf c1 /\
  forall env x y, eqz (val c env a) x -> eqz (val c env b) y -> bin_side BMul x y ->
                  eqz (val c1 env n) (fmul x y).
Proof.
  intros WF E. destruct (step_mul c a b c1 n WF E) as (_ & _ & A & B & C & _).
  repeat split; auto. intros env x y Ex Ey S.
  eapply eqz_trans; [|apply fmul_eqz; eauto].
  destruct (bin_side_mul_eqz _ _ _ _ Ex Ey S) as [S1 S2].
  apply (c_mul_sound o c a b c1 n env WF E); auto.
Qed.

Lemma stepz_add c a b c1 n :
  arena_wf c -> c_add o c a b = Ok (c1, n) ->
  reach goodc c c1 /\ n < length c1 /\ arena_wf c1 /\
  forall env x y, eqz (val c env a) x -> eqz (val c env b) y -> eqz (val c1 env n) (fadd x y).
Proof.
  intros WF E. destruct (step_add c a b c1 n WF E) as (_ & _ & A & B & C & _).
  repeat split; auto. intros env x y Ex Ey.
  eapply eqz_trans; [|apply fadd_eqz; eauto].
  apply (c_add_sound o c a b c1 n env WF E).
Qed.

Lemma arow_sound_z mat ax ay az c0 i c9 n :
  arena_wf c0 -> ax < length c0 -> ay < length c0 -> az < length c0 ->
  arow mat ax ay az c0 i = Ok (c9, n) ->
  reach goodc c0 c9 /\ n < length c9 /\ arena_wf c9 /\
  forall env X Y Z,
    eqz (val c0 env ax) X -> eqz (val c0 env ay) Y -> eqz (val c0 env az) Z ->
    bin_side BMul (mat_at mat i 0) X -> bin_side BMul (mat_at mat i 1) Y ->
    bin_side BMul (mat_at mat i 2) Z ->
    eqz (val c9 env n) (aff_row mat i X Y Z).
Proof.
  intros WF0 Lx Ly Lz E. unfold arow in E.
  apply bindR_ok in E. destruct E as (c1 & k0 & E1 & E).
  apply bindR_ok in E. destruct E as (c2 & a & E2 & E).
  apply bindR_ok in E. destruct E as (c3 & k1 & E3 & E).
  apply bindR_ok in E. destruct E as (c4 & b & E4 & E).
  apply bindR_ok in E. destruct E as (c5 & k2 & E5 & E).
  apply bindR_ok in E. destruct E as (c6 & cc & E6 & E).
  apply bindR_ok in E. destruct E as (c7 & d & E7 & E).
  apply bindR_ok in E. destruct E as (c8 & ab & E8 & E).
  apply bindR_ok in E. destruct E as (c9' & cd & E9 & E10).
  destruct (stepz_constant _ _ _ _ WF0 E1) as (R1 & L1 & WF1 & V1).
  destruct (stepz_mul _ _ _ _ _ WF1 E2) as (R2 & L2 & WF2 & V2).
  destruct (stepz_constant _ _ _ _ WF2 E3) as (R3 & L3 & WF3 & V3).
  destruct (stepz_mul _ _ _ _ _ WF3 E4) as (R4 & L4 & WF4 & V4).
  destruct (stepz_constant _ _ _ _ WF4 E5) as (R5 & L5 & WF5 & V5).
  destruct (stepz_mul _ _ _ _ _ WF5 E6) as (R6 & L6 & WF6 & V6).
  destruct (stepz_constant _ _ _ _ WF6 E7) as (R7 & L7 & WF7 & V7).
  destruct (stepz_add _ _ _ _ _ WF7 E8) as (R8 & L8 & WF8 & V8).
  destruct (stepz_add _ _ _ _ _ WF8 E9) as (R9 & L9 & WF9 & V9).
  destruct (stepz_add _ _ _ _ _ WF9 E10) as (R10 & L10 & WF10 & V10).
  pose proof (reach_trans _ _ _ _ R1 R2) as R02.
  pose proof (reach_trans _ _ _ _ R02 R3) as R03.
  pose proof (reach_trans _ _ _ _ R03 R4) as R04.
  pose proof (reach_trans _ _ _ _ R04 R5) as R05.
  pose proof (reach_trans _ _ _ _ R05 R6) as R06.
  pose proof (reach_trans _ _ _ _ R06 R7) as R07.
  pose proof (reach_trans _ _ _ _ R07 R8) as R08.
  pose proof (reach_trans _ _ _ _ R08 R9) as R09.
  pose proof (reach_trans _ _ _ _ R09 R10) as R010.
  split; auto. split; auto. split; auto.
  intros env X Y Z EX EY EZ S0 S1 S2.
  assert (Va : eqz (val c2 env a) (fmul (mat_at mat i 0) X)).
  { apply V2; auto. rewrite (rv c0 c1 env ax R1 Lx). auto. }
  assert (Vb : eqz (val c4 env b) (fmul (mat_at mat i 1) Y)).
  { apply V4; auto. rewrite (rv c0 c3 env ay R03 Ly). auto. }
  assert (Vc : eqz (val c6 env cc) (fmul (mat_at mat i 2) Z)).
  { apply V6; auto. rewrite (rv c0 c5 env az R05 Lz). auto. }
  assert (Vab : eqz (val c8 env ab) (fadd (fmul (mat_at mat i 0) X) (fmul (mat_at mat i 1) Y))).
  { apply V8.
    - rewrite (rv c2 c7 env a); auto.
      eapply reach_trans; [|exact R7]. eapply reach_trans; [|exact R6].
      eapply reach_trans; [|exact R5]. eapply reach_trans; [exact R3|exact R4].
    - rewrite (rv c4 c7 env b); auto.
      eapply reach_trans; [|exact R7]. eapply reach_trans; [exact R5|exact R6]. }
  assert (Vcd : eqz (val c9' env cd) (fadd (fmul (mat_at mat i 2) Z) (mat_at mat i 3))).
  { apply V9.
    - rewrite (rv c6 c8 env cc); auto. eapply reach_trans; [exact R7|exact R8].
    - rewrite (rv c7 c8 env d); auto. }
  apply V10; auto. rewrite (rv c8 c9' env ab); auto.
Qed.

Lemma arow_sound mat ax ay az c0 i c9 n :
  arena_wf c0 -> ax < length c0 -> ay < length c0 -> az < length c0 ->
  arow mat ax ay az c0 i = Ok (c9, n) ->
  reach goodc c0 c9 /\ n < length c9 /\ arena_wf c9 /\
  forall env, row_good mat i (val c0 env ax) (val c0 env ay) (val c0 env az) ->
              val c9 env n = aff_row mat i (val c0 env ax) (val c0 env ay) (val c0 env az).
Proof.
  intros WF0 Lx Ly Lz E.
  destruct (arow_sound_z mat ax ay az c0 i c9 n WF0 Lx Ly Lz E) as (A & B & C & V).
  repeat split; auto. intros env (S0 & S1 & S2 & Zr).
  apply eqz_nonzero; auto. apply V; auto; apply eqz_refl.
Qed.

(* ---- import ------------------------------------------------------------------ *)

(* [env'] is [env] with the axes replaced by the values of the axis nodes *)
Definition agree (c : ctx) (env env' : nat -> f32) (ax ay az : nat) : Prop :=
  (forall v, 3 <= v -> env' v = env v) /\
  env' 0 = val c env ax /\ env' 1 = val c env ay /\ env' 2 = val c env az.

Lemma agree_reach c c1 env env' ax ay az :
  reach goodc c c1 -> ax < length c -> ay < length c -> az < length c ->
  agree c env env' ax ay az -> agree c1 env env' ax ay az.
Proof.
  intros Rc Lx Ly Lz (A & B & C & D). repeat split; auto.
  - rewrite (rv c c1); auto.
  - rewrite (rv c c1); auto.
  - rewrite (rv c c1); auto.
Qed.

Theorem import_rec_sound : forall fuel t, no_copy t ->
  forall c ax ay az i c' n,
  arena_wf c -> ax < length c -> ay < length c -> az < length c ->
  import_rec o fuel t c (ax, ay, az) i = Ok (c', n) ->
  reach goodc c c' /\ n < length c' /\ arena_wf c' /\
  forall env env', agree c env env' ax ay az -> tgood fuel t env' i ->
                   val c' env n = tden fuel t env' i.
Proof.
  induction fuel as [|f IH]; intros t NC c ax ay az i c' n WF Lx Ly Lz E; [discriminate|].
  rewrite import_rec_S in E. cbn [tden tgood].
  destruct (nth_error t i) as [[v|v|u a|p l r|tg x y z|tg mat]|] eqn:Hi; [| | | | | |discriminate].
  - (* TInput *)
    destruct v as [|[|[|v]]].
    + inversion E; subst. repeat split; auto; [apply reach_refl|].
      intros env env' (A & B & C & D) _. auto.
    + inversion E; subst. repeat split; auto; [apply reach_refl|].
      intros env env' (A & B & C & D) _. auto.
    + inversion E; subst. repeat split; auto; [apply reach_refl|].
      intros env env' (A & B & C & D) _. auto.
    + destruct (var_spec c (S (S (S v)))) as (c1 & k & E' & Rch & L & _).
      rewrite E in E'. inversion E'; subst c1 k.
      split; auto. split; auto. split; [eapply reach_goodc_wf; eauto|].
      intros env env' (A & B & C & D) _.
      rewrite (var_sound o c _ c' n env WF E). symmetry. apply A. lia.
  - (* TConst *)
    destruct (step_constant _ _ _ _ WF E) as (R1 & L1 & WF1 & V1).
    repeat split; auto.
  - (* TUn *)
    apply bindR_ok in E. destruct E as (c1 & na & E1 & E2).
    destruct (IH t NC _ _ _ _ _ _ _ WF Lx Ly Lz E1) as (R1 & L1 & WF1 & V1).
    destruct (op_unary_spec o u (NC _ _ _ Hi)) as (S1 & _ & _).
    destruct (S1 _ _ _ _ E2) as (_ & R2 & L2).
    split; [eapply reach_trans; eauto|]. split; auto. split; [eapply reach_goodc_wf; eauto|].
    intros env env' AG (G1 & Z).
    rewrite (op_unary_exact o c1 na u c' n env WF1 E2); rewrite (V1 env env' AG G1); auto.
  - (* TBin *)
    apply bindR_ok in E. destruct E as (c1 & nr & E1 & E).
    apply bindR_ok in E. destruct E as (c2 & nl & E2 & E3).
    destruct (IH t NC _ _ _ _ _ _ _ WF Lx Ly Lz E1) as (R1 & L1 & WF1 & V1).
    pose proof (reach_length _ _ _ R1) as Len1.
    destruct (IH t NC c1 ax ay az _ _ _ WF1 ltac:(lia) ltac:(lia) ltac:(lia) E2) as (R2 & L2 & WF2 & V2).
    destruct (step_bin _ _ _ _ _ _ WF2 E3) as (_ & _ & R3 & L3 & WF3 & V3).
    split; [eapply reach_trans; [eapply reach_trans|]; eauto|]. split; auto. split; auto.
    intros env env' AG (Gl & Gr & S & Z).
    assert (Vr : val c2 env nr = tden f t env' r).
    { rewrite (rv c1 c2); auto. }
    assert (Vl : val c2 env nl = tden f t env' l).
    { apply V2; auto. eapply agree_reach; eauto. }
    rewrite V3; rewrite Vl, Vr; auto.
  - (* TRemapAxes *)
    apply bindR_ok in E. destruct E as (c1 & nz' & E1 & E).
    apply bindR_ok in E. destruct E as (c2 & ny & E2 & E).
    apply bindR_ok in E. destruct E as (c3 & nx & E3 & E4).
    destruct (IH t NC _ _ _ _ _ _ _ WF Lx Ly Lz E1) as (R1 & L1 & WF1 & V1).
    pose proof (reach_length _ _ _ R1) as Len1.
    destruct (IH t NC c1 ax ay az _ _ _ WF1 ltac:(lia) ltac:(lia) ltac:(lia) E2) as (R2 & L2 & WF2 & V2).
    pose proof (reach_length _ _ _ R2) as Len2.
    destruct (IH t NC c2 ax ay az _ _ _ WF2 ltac:(lia) ltac:(lia) ltac:(lia) E3) as (R3 & L3 & WF3 & V3).
    pose proof (reach_length _ _ _ R3) as Len3.
    destruct (IH t NC c3 nx ny nz' _ _ _ WF3 ltac:(lia) ltac:(lia) ltac:(lia) E4) as (R4 & L4 & WF4 & V4).
    pose proof (reach_trans _ _ _ _ R1 R2) as R02.
    pose proof (reach_trans _ _ _ _ R02 R3) as R03.
    split; [eapply reach_trans; eauto|]. split; auto. split; auto.
    intros env env' AG (Gx & Gy & Gz & Gt).
    apply V4; auto.
    assert (AG1 : agree c1 env env' ax ay az) by (eapply agree_reach; eauto).
    assert (AG2 : agree c2 env env' ax ay az) by (eapply agree_reach; eauto; lia).
    pose proof AG as (A & _). repeat split.
    + intros v Hv. destruct v as [|[|[|v]]]; try lia. simpl. apply A; auto.
    + simpl. symmetry. apply V3; auto.
    + simpl. rewrite (rv c2 c3); auto. symmetry. apply V2; auto.
    + simpl. rewrite (rv c1 c3); [|eapply reach_trans; eauto|auto]. symmetry. apply V1; auto.
  - (* TRemapAffine *)
    apply bindR_ok in E. destruct E as (c1 & nx & E1 & E).
    apply bindR_ok in E. destruct E as (c2 & ny & E2 & E).
    apply bindR_ok in E. destruct E as (c3 & nz' & E3 & E4).
    destruct (arow_sound _ _ _ _ _ _ _ _ WF Lx Ly Lz E1) as (R1 & L1 & WF1 & V1).
    pose proof (reach_length _ _ _ R1) as Len1.
    destruct (arow_sound mat ax ay az c1 1 _ _ WF1 ltac:(lia) ltac:(lia) ltac:(lia) E2) as (R2 & L2 & WF2 & V2).
    pose proof (reach_length _ _ _ R2) as Len2.
    destruct (arow_sound mat ax ay az c2 2 _ _ WF2 ltac:(lia) ltac:(lia) ltac:(lia) E3) as (R3 & L3 & WF3 & V3).
    pose proof (reach_length _ _ _ R3) as Len3.
    destruct (IH t NC c3 nx ny nz' _ _ _ WF3 ltac:(lia) ltac:(lia) ltac:(lia) E4) as (R4 & L4 & WF4 & V4).
    pose proof (reach_trans _ _ _ _ R1 R2) as R02.
    pose proof (reach_trans _ _ _ _ R02 R3) as R03.
    split; [eapply reach_trans; eauto|]. split; auto. split; auto.
    intros env env' AG (G0 & G1 & G2 & Gt).
    apply V4; auto.
    destruct AG as (A & B & C & D). rewrite B, C, D in *.
    repeat split.
    + intros v Hv. destruct v as [|[|[|v]]]; try lia. simpl. apply A; auto.
    + simpl. rewrite (rv c1 c3); [|eapply reach_trans; eauto|auto]. symmetry. apply V1; auto.
    + simpl. rewrite (rv c2 c3); auto. symmetry.
      rewrite <- (rv c c1 env ax), <- (rv c c1 env ay), <- (rv c c1 env az) by auto.
      apply V2. rewrite !(rv c c1) by auto. auto.
    + simpl. symmetry.
      rewrite <- (rv c c2 env ax), <- (rv c c2 env ay), <- (rv c c2 env az) by auto.
      apply V3. rewrite !(rv c c2) by auto. auto.
Qed.

Lemma step_var c v c1 k :
  arena_wf c -> var c v = Ok (c1, k) ->
  reach goodc c c1 /\ k < length c1 /\ arena_wf c1 /\ forall env, val c1 env k = env v.
Proof.
  intros WF E. destruct (var_spec c v) as (c' & n & E' & Rch & L & _).
  rewrite E in E'. inversion E'; subst c' n.
  split; auto. split; auto. split; [eapply reach_goodc_wf; eauto|].
  intros env. apply (var_sound o c v c1 k env WF E).
Qed.

(* Context::import *)
Theorem import_sound t root c c' n :
  arena_wf c -> no_copy t -> import o t root c = Ok (c', n) ->
  reach goodc c c' /\ n < length c' /\
  forall env, tgood (S (length t)) t env root ->
              val c' env n = tden (S (length t)) t env root.
Proof.
  intros WF NC E. unfold import in E.
  apply bindR_ok in E. destruct E as (c1 & x & E1 & E).
  apply bindR_ok in E. destruct E as (c2 & y & E2 & E).
  apply bindR_ok in E. destruct E as (c3 & z & E3 & E4).
  destruct (step_var _ _ _ _ WF E1) as (R1 & L1 & WF1 & V1).
  destruct (step_var _ _ _ _ WF1 E2) as (R2 & L2 & WF2 & V2).
  destruct (step_var _ _ _ _ WF2 E3) as (R3 & L3 & WF3 & V3).
  pose proof (reach_length _ _ _ R2) as Len2. pose proof (reach_length _ _ _ R3) as Len3.
  destruct (import_rec_sound _ t NC c3 x y z root c' n WF3 ltac:(lia) ltac:(lia) ltac:(lia) E4)
    as (R4 & L4 & WF4 & V4).
  split; [eapply reach_trans; [eapply reach_trans; [eapply reach_trans|]|]; eauto|].
  split; auto. intros env G. apply V4; auto.
  repeat split; auto.
  - rewrite (rv c1 c3); auto. eapply reach_trans; eauto.
  - rewrite (rv c2 c3); auto.
Qed.

(* ---- the denotation does not depend on the fuel (well-formed tables) ---------- *)
Definition tchildren (x : tnode) : list nat :=
  match x with
  | TUn _ a => [a]
  | TBin _ l r => [l; r]
  | TRemapAxes tg x y z => [tg; x; y; z]
  | TRemapAffine tg _ => [tg]
  | _ => []
  end.
Definition table_wf (t : list tnode) : Prop :=
  forall i x, nth_error t i = Some x -> forall k, In k (tchildren x) -> k < i.

Lemma tden_fuel t : table_wf t -> forall f1 f2 i env,
  i < f1 -> i < f2 -> tden f1 t env i = tden f2 t env i.
Proof.
  intros TW. induction f1 as [|f1 IH]; intros f2 i env L1 L2; [lia|].
  destruct f2 as [|f2]; [lia|]. cbn [tden].
  destruct (nth_error t i) as [x|] eqn:Hi; auto.
  pose proof (TW _ _ Hi) as C.
  assert (LT : forall k, In k (tchildren x) -> k < f1 /\ k < f2).
  { intros k Hk. specialize (C k Hk). lia. }
  destruct x as [v|v|u a|p l r|tg x y z|tg mat]; simpl in LT; auto.
  - destruct (LT a) as [A1 A2]; auto. rewrite (IH f2 a); auto.
  - destruct (LT l) as [A1 A2]; auto. destruct (LT r) as [B1 B2]; auto.
    rewrite (IH f2 l), (IH f2 r); auto.
  - destruct (LT tg) as [A1 A2]; auto. destruct (LT x) as [B1 B2]; auto.
    destruct (LT y) as [C1 C2]; auto 6. destruct (LT z) as [D1 D2]; auto 6.
    rewrite (IH f2 x), (IH f2 y), (IH f2 z); auto.
  - destruct (LT tg) as [A1 A2]; auto.
Qed.

Lemma tgood_fuel t : table_wf t -> forall f1 f2 i env,
  i < f1 -> i < f2 -> tgood f1 t env i -> tgood f2 t env i.
Proof.
  intros TW. induction f1 as [|f1 IH]; intros f2 i env L1 L2; [lia|].
  destruct f2 as [|f2]; [lia|]. cbn [tgood].
  destruct (nth_error t i) as [x|] eqn:Hi; auto.
  pose proof (TW _ _ Hi) as C.
  assert (LT : forall k, In k (tchildren x) -> k < f1 /\ k < f2).
  { intros k Hk. specialize (C k Hk). lia. }
  destruct x as [v|v|u a|p l r|target x y z|target mat]; simpl in C, LT; auto.
  - destruct (LT a) as [A1 A2]; auto.
    rewrite (tden_fuel t TW f1 f2 a) by auto. intros [G Z]. split; auto; apply (IH f2); auto.
  - destruct (LT l) as [A1 A2]; auto. destruct (LT r) as [B1 B2]; auto.
    rewrite (tden_fuel t TW f1 f2 l), (tden_fuel t TW f1 f2 r) by auto.
    intros (G1 & G2 & S & Z). repeat split; auto; apply (IH f2); auto.
  - destruct (LT target) as [A1 A2]; auto. destruct (LT x) as [B1 B2]; auto.
    destruct (LT y) as [C1 C2]; auto 6. destruct (LT z) as [D1 D2]; auto 6.
    rewrite (tden_fuel t TW f1 f2 x), (tden_fuel t TW f1 f2 y), (tden_fuel t TW f1 f2 z) by auto.
    intros (G1 & G2 & G3 & G4). repeat split; auto; apply (IH f2); auto.
  - destruct (LT target) as [A1 A2]; auto.
    intros (G1 & G2 & G3 & G4). split; [exact G1|]. split; [exact G2|]. split; [exact G3|].
    apply (IH f2); auto.
Qed.

(* the denotation of node i of a well-formed table, and its side condition *)
Definition tree_den (t : list tnode) (env : nat -> f32) (i : nat) : f32 := tden (S i) t env i.
Definition tree_good (t : list tnode) (env : nat -> f32) (i : nat) : Prop := tgood (S i) t env i.

Theorem import_sound_wf t root c c' n :
  arena_wf c -> no_copy t -> table_wf t -> root < length t ->
  import o t root c = Ok (c', n) ->
  forall env, tree_good t env root -> val c' env n = tree_den t env root.
Proof.
  intros WF NC TW L E env G.
  destruct (import_sound t root c c' n WF NC E) as (_ & _ & V).
  unfold tree_den. rewrite (tden_fuel t TW (S root) (S (length t))) by lia.
  apply V. apply (tgood_fuel t TW (S root)); auto.
Qed.

(* "every value of the direct evaluation is finite and not a zero" implies [tgood] *)
Definition fnz (x : f32) : Prop := finite x /\ nz x.
Definition row_fnz (mat : list f32) (i : nat) (X Y Z : f32) : Prop :=
  let m := mat_at mat i in
  fnz (m 0) /\ fnz (m 1) /\ fnz (m 2) /\ fnz (m 3) /\ fnz X /\ fnz Y /\ fnz Z /\
  fnz (fmul (m 0) X) /\ fnz (fmul (m 1) Y) /\ fnz (fmul (m 2) Z) /\
  fnz (fadd (fmul (m 0) X) (fmul (m 1) Y)) /\ fnz (fadd (fmul (m 2) Z) (m 3)) /\
  fnz (aff_row mat i X Y Z).

Fixpoint tfnz (fuel : nat) (t : list tnode) (env : nat -> f32) (i : nat) : Prop :=
  match fuel with
  | O => True
  | S f =>
      fnz (tden fuel t env i) /\
      match nth_error t i with
      | Some (TUn u a) => tfnz f t env a
      | Some (TBin p l r) => tfnz f t env l /\ tfnz f t env r
      | Some (TRemapAxes target x y z) =>
          tfnz f t env x /\ tfnz f t env y /\ tfnz f t env z /\
          tfnz f t (set_axes env (tden f t env x) (tden f t env y) (tden f t env z)) target
      | Some (TRemapAffine target mat) =>
          let X := env 0 in let Y := env 1 in let Z := env 2 in
          row_fnz mat 0 X Y Z /\ row_fnz mat 1 X Y Z /\ row_fnz mat 2 X Y Z /\
          tfnz f t (set_axes env (aff_row mat 0 X Y Z) (aff_row mat 1 X Y Z) (aff_row mat 2 X Y Z)) target
      | _ => True
      end
  end.

Lemma bin_side_mul_fnz x y : finite x -> finite y -> bin_side BMul x y.
Proof. intros; split; auto. Qed.

Lemma row_fnz_good mat i X Y Z : row_fnz mat i X Y Z -> row_good mat i X Y Z.
Proof.
  unfold row_fnz, row_good, fnz. cbv zeta.
  intros ((F0&Z0)&(F1&Z1)&(F2&Z2)&(F3&Z3)&(FX&ZX)&(FY&ZY)&(FZ&ZZ)&(_&P0)&(_&P1)&(_&P2)&(_&A)&(_&B)&(_&C)).
  split; [split; auto|]. split; [split; auto|]. split; [split; auto|]. exact C.
Qed.

Lemma bin_side_nan p : bin_side p fnan fnan.
Proof. destruct p; simpl; auto; try split; discriminate. Qed.

Lemma tfnz_finite f t env i : tfnz (S f) t env i -> finite (tden (S f) t env i).
Proof. cbn [tfnz]. intros [[F _] _]. exact F. Qed.

Lemma tfnz_tgood : forall fuel t env i, tfnz fuel t env i -> tgood fuel t env i.
Proof.
  induction fuel as [|f IH]; intros t env i; [auto|].
  cbn [tfnz tgood]. intros [[Fv Zv] H].
  cbn [tden] in Fv, Zv.
  destruct (nth_error t i) as [[v|v|u a|p l r|tg x y z|tg mat]|] eqn:Hi; auto.
  - destruct H as [Hl Hr]. split; auto. split; auto. split; auto.
    destruct f as [|f']; [apply bin_side_nan|].
    apply (bin_side_finite o); auto; apply tfnz_finite; auto.
  - destruct H as (Hx & Hy & Hz & Ht). repeat split; auto.
  - destruct H as (H0 & H1 & H2 & Ht).
    split; [apply row_fnz_good; exact H0|]. split; [apply row_fnz_good; exact H1|].
    split; [apply row_fnz_good; exact H2|]. apply IH; exact Ht.
Qed.

End Import.
