(* View.v — executable model of
     fidget-gui/src/lib.rs   (View2, View3, TranslateHandle, RotateHandle,
                              Canvas2, Canvas3)
     fidget-core/src/render/region.rs
                             (RegionSize::screen_to_world,
                              ImageSize::transform_point,
                              VoxelSize::transform_point).

   The model is written ONCE over an abstract number structure [Num T] and is
   instantiated twice:
     - [q_num : Num Q]  exact rationals, computable; this is the instance that
       is extracted to OCaml and compared with the Rust code on event sequences
       whose f32 arithmetic is exact (power-of-two image sizes, integer screen
       positions, scroll amounts that are multiples of 100, yaw = pitch = 0);
     - [r_num : Num R]  real numbers; this is the instance the theorems of
       ViewSound.v are about.

   Modelling conventions (all of them are exact-arithmetic identities; none of
   them changes a value when the arithmetic is exact):

   * A homogeneous matrix is never materialised.  nalgebra's
     [Matrix3::transform_point] computes  L*p + t  and then divides by the
     homogeneous coordinate  n = (last row) . (p,1);  every matrix built here
     has last row (0,..,0,1), so n = 1 and the division is the identity.
     [View2::world_to_model = T(center) * S(scale)] applied to p is
     (scale*p.x + center.x, scale*p.y + center.y); the terms multiplied by the
     zero entries of the matrix are dropped.
   * [View3::world_to_model = T(center) * Rz(yaw) * Rx(pitch) * S(scale)]
     applied to p is  center + Rz(yaw) (Rx(pitch) (scale * p)).
   * [TranslateHandle::initial_mat] (a matrix) is represented by the view
     whose [world_to_model()] it is ([h2_mat], [h3_mat]); applying the matrix
     to a point is [view*_w2m_point] of that snapshot.
   * [RegionSize::screen_to_world] builds
         identity . append_translation(-center) . append_nonuniform_scaling(s,-s[,s])
     i.e. the matrix  [[s,0,s*(-cx)],[0,-s,(-s)*(-cy)],[0,0,1]]  (row i of the
     translated matrix is multiplied by scale[i], translation column
     included), and [transform_point] computes  s*px + s*(-cx),
     (-s)*py + (-s)*(-cy).  The model follows this shape;
     [ViewSound.screen_to_world2_spec] shows it equals
     ((px - w/2)*s, (py - (h/2-1))*(-s)).
     [center = size/2; center[1] -= 1;  s = 2 / min(size)].  A size with a
     zero component gives s = 2/0 (= +inf in f32): outside the tie.
   * `*self != prev` on the derived [PartialEq] of View2/View3 is the
     disjunction of the component-wise `!=`  ([view2_neqb], [view3_neqb]).
   * u32/i32 quantities are [Z]; [n_of_Z] is the `as f32` / `.cast()`.  *)

From Coq Require Import List ZArith QArith Bool.
Import ListNotations.

Set Implicit Arguments.

(** * The abstract number structure *)

Record Num (T : Type) := mkNum {
  n_add  : T -> T -> T;
  n_sub  : T -> T -> T;
  n_mul  : T -> T -> T;
  n_div  : T -> T -> T;
  n_opp  : T -> T;                (* unary minus: `-center`, `scale[1] *= -1.0` *)
  n_zero : T;
  n_one  : T;
  n_two  : T;
  n_neqb : T -> T -> bool;        (* the `!=` of the `changed` flags *)
  n_exp2 : T -> T;                (* amount |-> (amount / 100.0).exp2(), as a whole *)
  n_sin  : T -> T;
  n_cos  : T -> T;
  n_fmod_tau   : T -> T;          (* x % std::f32::consts::TAU  (C fmod)  *)
  n_clamp_0_pi : T -> T;          (* x.clamp(0.0, std::f32::consts::PI)   *)
  n_of_Z : Z -> T                 (* integer -> float cast *)
}.

Declare Scope num_scope.
Delimit Scope num_scope with num.

Section Model.

Variable T : Type.
Variable N : Num T.

Local Notation "x + y" := (n_add N x y) : num_scope.
Local Notation "x - y" := (n_sub N x y) : num_scope.
Local Notation "x * y" := (n_mul N x y) : num_scope.
Local Notation "x / y" := (n_div N x y) : num_scope.
Local Notation "- x"   := (n_opp N x)   : num_scope.
Local Notation zero := (n_zero N).
Local Notation one  := (n_one N).
Local Notation two  := (n_two N).
Local Notation ofZ  := (n_of_Z N).
Local Open Scope num_scope.

(** ** Vectors *)

Definition vec2 : Type := (T * T)%type.
Definition vec3 : Type := (T * T * T)%type.

Definition vadd2 (a b : vec2) : vec2 :=
  let '(ax, ay) := a in let '(bx, by_) := b in (ax + bx, ay + by_).
Definition vsub2 (a b : vec2) : vec2 :=
  let '(ax, ay) := a in let '(bx, by_) := b in (ax - bx, ay - by_).
(* Vector `!=`: true iff some component differs *)
Definition vneqb2 (a b : vec2) : bool :=
  let '(ax, ay) := a in let '(bx, by_) := b in
  n_neqb N ax bx || n_neqb N ay by_.

Definition vadd3 (a b : vec3) : vec3 :=
  let '(ax, ay, az) := a in let '(bx, by_, bz) := b in
  (ax + bx, ay + by_, az + bz).
Definition vsub3 (a b : vec3) : vec3 :=
  let '(ax, ay, az) := a in let '(bx, by_, bz) := b in
  (ax - bx, ay - by_, az - bz).
Definition vneqb3 (a b : vec3) : bool :=
  let '(ax, ay, az) := a in let '(bx, by_, bz) := b in
  n_neqb N ax bx || n_neqb N ay by_ || n_neqb N az bz.

(** ** View2 *)

Record view2 : Type := mkView2 {
  v2_center : vec2;
  v2_scale  : T
}.

(* impl Default for View2 *)
Definition view2_default : view2 :=
  {| v2_center := (zero, zero); v2_scale := one |}.

(* View2::from_center_and_scale / from_components *)
Definition view2_from_components (center : vec2) (scale : T) : view2 :=
  {| v2_center := center; v2_scale := scale |}.

(* View2::transform_point = (translation_mat() * scale_mat()).transform_point(p) *)
Definition view2_w2m_point (v : view2) (p : vec2) : vec2 :=
  let '(cx, cy) := v2_center v in
  let '(px, py) := p in
  let s := v2_scale v in
  (s * px + cx, s * py + cy).

(* derived PartialEq: `a != b` *)
Definition view2_neqb (a b : view2) : bool :=
  vneqb2 (v2_center a) (v2_center b) || n_neqb N (v2_scale a) (v2_scale b).

(* View2::zoom.  [amount] is the multiplicative factor.  Returns the new view
   and `*self != prev`. *)
Definition view2_zoom (v : view2) (amount : T) (pos : option vec2)
  : view2 * bool :=
  let v' :=
    match pos with
    | Some before =>
        let pos_before := view2_w2m_point v before in
        let v1 := {| v2_center := v2_center v; v2_scale := v2_scale v * amount |} in
        let pos_after := view2_w2m_point v1 before in
        {| v2_center := vadd2 (v2_center v1) (vsub2 pos_before pos_after);
           v2_scale  := v2_scale v1 |}
    | None =>
        {| v2_center := v2_center v; v2_scale := v2_scale v * amount |}
    end in
  (v', view2_neqb v' v).

(* TranslateHandle<2> *)
Record handle2 : Type := mkHandle2 {
  h2_start : vec2;            (* initial click, in model space *)
  h2_mat   : view2;           (* the view whose world_to_model() is initial_mat *)
  h2_initial_center : vec2
}.

(* View2::begin_translate *)
Definition begin_translate2 (v : view2) (start : vec2) : handle2 :=
  {| h2_start := view2_w2m_point v start;
     h2_mat := v;
     h2_initial_center := v2_center v |}.

(* TranslateHandle<2>::center *)
Definition handle2_center (h : handle2) (pos : vec2) : vec2 :=
  let pos_model := view2_w2m_point (h2_mat h) pos in
  vsub2 (h2_initial_center h) (vsub2 pos_model (h2_start h)).

(* View2::translate *)
Definition translate2 (v : view2) (h : handle2) (pos : vec2) : view2 * bool :=
  let next_center := handle2_center h pos in
  let changed := vneqb2 next_center (v2_center v) in
  ({| v2_center := next_center; v2_scale := v2_scale v |}, changed).

(** ** View3 *)

Record view3 : Type := mkView3 {
  v3_center : vec3;
  v3_scale  : T;
  v3_yaw    : T;
  v3_pitch  : T
}.

Definition view3_default : view3 :=
  {| v3_center := (zero, zero, zero); v3_scale := one;
     v3_yaw := zero; v3_pitch := zero |}.

Definition view3_from_center_and_scale (center : vec3) (scale : T) : view3 :=
  {| v3_center := center; v3_scale := scale; v3_yaw := zero; v3_pitch := zero |}.

Definition view3_from_components (center : vec3) (scale yaw pitch : T) : view3 :=
  {| v3_center := center; v3_scale := scale; v3_yaw := yaw; v3_pitch := pitch |}.

(* Rx(a) q = (x, cos a * y - sin a * z, sin a * y + cos a * z) *)
Definition rot_x (a : T) (q : vec3) : vec3 :=
  let '(x, y, z) := q in
  (x, n_cos N a * y - n_sin N a * z, n_sin N a * y + n_cos N a * z).

(* Rz(a) q = (cos a * x - sin a * y, sin a * x + cos a * y, z) *)
Definition rot_z (a : T) (q : vec3) : vec3 :=
  let '(x, y, z) := q in
  (n_cos N a * x - n_sin N a * y, n_sin N a * x + n_cos N a * y, z).

(* View3::transform_point
     = (translation_mat() * rot_mat() * scale_mat()).transform_point(p),
   rot_mat() = Rz(yaw) * Rx(pitch). *)
Definition view3_w2m_point (v : view3) (p : vec3) : vec3 :=
  let '(px, py, pz) := p in
  let s := v3_scale v in
  vadd3 (rot_z (v3_yaw v) (rot_x (v3_pitch v) (s * px, s * py, s * pz)))
        (v3_center v).

Definition view3_neqb (a b : view3) : bool :=
  vneqb3 (v3_center a) (v3_center b)
  || n_neqb N (v3_scale a) (v3_scale b)
  || n_neqb N (v3_yaw a) (v3_yaw b)
  || n_neqb N (v3_pitch a) (v3_pitch b).

(* View3::zoom *)
Definition view3_zoom (v : view3) (amount : T) (pos : option vec3)
  : view3 * bool :=
  let v' :=
    match pos with
    | Some before =>
        let pos_before := view3_w2m_point v before in
        let v1 := {| v3_center := v3_center v; v3_scale := v3_scale v * amount;
                     v3_yaw := v3_yaw v; v3_pitch := v3_pitch v |} in
        let pos_after := view3_w2m_point v1 before in
        {| v3_center := vadd3 (v3_center v1) (vsub3 pos_before pos_after);
           v3_scale := v3_scale v1; v3_yaw := v3_yaw v1; v3_pitch := v3_pitch v1 |}
    | None =>
        {| v3_center := v3_center v; v3_scale := v3_scale v * amount;
           v3_yaw := v3_yaw v; v3_pitch := v3_pitch v |}
    end in
  (v', view3_neqb v' v).

(* TranslateHandle<3> *)
Record handle3 : Type := mkHandle3 {
  h3_start : vec3;
  h3_mat   : view3;
  h3_initial_center : vec3
}.

(* View3::begin_translate *)
Definition begin_translate3 (v : view3) (start : vec3) : handle3 :=
  {| h3_start := view3_w2m_point v start;
     h3_mat := v;
     h3_initial_center := v3_center v |}.

(* TranslateHandle<3>::center *)
Definition handle3_center (h : handle3) (pos : vec3) : vec3 :=
  let pos_model := view3_w2m_point (h3_mat h) pos in
  vsub3 (h3_initial_center h) (vsub3 pos_model (h3_start h)).

(* View3::translate *)
Definition translate3 (v : view3) (h : handle3) (pos : vec3) : view3 * bool :=
  let next_center := handle3_center h pos in
  let changed := vneqb3 next_center (v3_center v) in
  ({| v3_center := next_center; v3_scale := v3_scale v;
      v3_yaw := v3_yaw v; v3_pitch := v3_pitch v |}, changed).

(* RotateHandle *)
Record rotate_handle : Type := mkRotateHandle {
  rh_start : vec3;            (* initial click, in world space *)
  rh_initial_yaw : T;
  rh_initial_pitch : T
}.

(* const ROTATE_SPEED: f32 = 2.0 *)
Definition ROTATE_SPEED : T := two.

(* View3::begin_rotate *)
Definition begin_rotate (v : view3) (start : vec3) : rotate_handle :=
  {| rh_start := start; rh_initial_yaw := v3_yaw v; rh_initial_pitch := v3_pitch v |}.

(* RotateHandle::yaw *)
Definition rh_yaw (h : rotate_handle) (x : T) : T :=
  let '(sx, _, _) := rh_start h in
  n_fmod_tau N (rh_initial_yaw h + (sx - x) * ROTATE_SPEED).

(* RotateHandle::pitch *)
Definition rh_pitch (h : rotate_handle) (y : T) : T :=
  let '(_, sy, _) := rh_start h in
  n_clamp_0_pi N (rh_initial_pitch h + (y - sy) * ROTATE_SPEED).

(* View3::rotate *)
Definition rotate3 (v : view3) (h : rotate_handle) (pos : vec3) : view3 * bool :=
  let '(px, py, _) := pos in
  let next_yaw := rh_yaw h px in
  let next_pitch := rh_pitch h py in
  let changed := n_neqb N next_yaw (v3_yaw v) || n_neqb N next_pitch (v3_pitch v) in
  ({| v3_center := v3_center v; v3_scale := v3_scale v;
      v3_yaw := next_yaw; v3_pitch := next_pitch |}, changed).

(** ** RegionSize::screen_to_world, ImageSize/VoxelSize::transform_point *)

(* ImageSize::new(w,h).transform_point(Point2::new(px,py)) *)
Definition screen_to_world2 (w h : Z) (px py : Z) : vec2 :=
  let cx := ofZ w / two in
  let cy := ofZ h / two - one in
  let s  := two / ofZ (Z.min w h) in
  let sy := s * (- one) in
  (s * ofZ px + s * (- cx), sy * ofZ py + sy * (- cy)).

(* VoxelSize::new(w,h,d).transform_point(Point3::new(px,py,pz)) *)
Definition screen_to_world3 (w h d : Z) (px py pz : Z) : vec3 :=
  let cx := ofZ w / two in
  let cy := ofZ h / two - one in
  let cz := ofZ d / two in
  let s  := two / ofZ (Z.min (Z.min w h) d) in
  let sy := s * (- one) in
  (s * ofZ px + s * (- cx), sy * ofZ py + sy * (- cy), s * ofZ pz + s * (- cz)).

(** ** Canvas2 *)

Record canvas2 : Type := mkCanvas2 {
  c2_view : view2;
  c2_size : Z * Z;                 (* ImageSize (width, height) *)
  c2_drag : option handle2         (* drag_start *)
}.

(* Canvas2::new *)
Definition canvas2_new (size : Z * Z) : canvas2 :=
  {| c2_view := view2_default; c2_size := size; c2_drag := None |}.

(* Canvas2::from_components *)
Definition canvas2_from_components (v : view2) (size : Z * Z) : canvas2 :=
  {| c2_view := v; c2_size := size; c2_drag := None |}.

(* self.image_size.transform_point(p) *)
Definition canvas2_screen_to_world (c : canvas2) (p : Z * Z) : vec2 :=
  let '(w, h) := c2_size c in let '(px, py) := p in
  screen_to_world2 w h px py.

(* Canvas2::resize *)
Definition canvas2_resize (c : canvas2) (size : Z * Z) : canvas2 :=
  {| c2_view := c2_view c; c2_size := size; c2_drag := c2_drag c |}.

(* Canvas2::begin_drag *)
Definition canvas2_begin_drag (c : canvas2) (pos_screen : Z * Z) : canvas2 :=
  match c2_drag c with
  | None =>
      let pos_world := canvas2_screen_to_world c pos_screen in
      {| c2_view := c2_view c; c2_size := c2_size c;
         c2_drag := Some (begin_translate2 (c2_view c) pos_world) |}
  | Some _ => c
  end.

(* Canvas2::drag *)
Definition canvas2_drag (c : canvas2) (pos_screen : Z * Z) : canvas2 * bool :=
  match c2_drag c with
  | Some prev =>
      let pos_world := canvas2_screen_to_world c pos_screen in
      let '(v', changed) := translate2 (c2_view c) prev pos_world in
      ({| c2_view := v'; c2_size := c2_size c; c2_drag := c2_drag c |}, changed)
  | None => (c, false)
  end.

(* Canvas2::end_drag *)
Definition canvas2_end_drag (c : canvas2) : canvas2 :=
  {| c2_view := c2_view c; c2_size := c2_size c; c2_drag := None |}.

(* Canvas2::zoom; [amount] is the linear scroll amount *)
Definition canvas2_zoom (c : canvas2) (amount : T) (pos_screen : option (Z * Z))
  : canvas2 * bool :=
  let pos_world := option_map (canvas2_screen_to_world c) pos_screen in
  let '(v', changed) := view2_zoom (c2_view c) (n_exp2 N amount) pos_world in
  ({| c2_view := v'; c2_size := c2_size c; c2_drag := c2_drag c |}, changed).

(* Canvas2::interact.  cursor = Some (screen_pos, drag) *)
Definition canvas2_interact (c : canvas2) (size : Z * Z)
    (cursor : option ((Z * Z) * bool)) (scroll : T) : canvas2 * bool :=
  let c0 := canvas2_resize c size in            (* self.image_size = image_size *)
  let '(c1, changed1, pos_screen) :=
    match cursor with
    | Some (screen_pos, true) =>
        let ca := canvas2_begin_drag c0 screen_pos in
        let '(cb, ch) := canvas2_drag ca screen_pos in
        (cb, ch, Some screen_pos)
    | Some (screen_pos, false) => (canvas2_end_drag c0, false, Some screen_pos)
    | None => (canvas2_end_drag c0, false, None)
    end in
  let '(c2, changed2) := canvas2_zoom c1 scroll pos_screen in
  (c2, changed1 || changed2).

(** Events and runs, 2D *)

Inductive event2 : Type :=
| EInteract2 (size : Z * Z) (cursor : option ((Z * Z) * bool)) (scroll : T)
| EBeginDrag2 (pos : Z * Z)
| EDrag2 (pos : Z * Z)
| EEndDrag2
| EZoom2 (amount : T) (pos : option (Z * Z))
| EResize2 (size : Z * Z).

(* One call; [Some b] is the returned `changed`, [None] for unit-returning calls *)
Definition step2 (c : canvas2) (e : event2) : canvas2 * option bool :=
  match e with
  | EInteract2 size cursor scroll =>
      let '(c', b) := canvas2_interact c size cursor scroll in (c', Some b)
  | EBeginDrag2 pos => (canvas2_begin_drag c pos, None)
  | EDrag2 pos => let '(c', b) := canvas2_drag c pos in (c', Some b)
  | EEndDrag2 => (canvas2_end_drag c, None)
  | EZoom2 amount pos => let '(c', b) := canvas2_zoom c amount pos in (c', Some b)
  | EResize2 size => (canvas2_resize c size, None)
  end.

Definition cons_flag (ob : option bool) (l : list bool) : list bool :=
  match ob with Some b => b :: l | None => l end.

Fixpoint run2 (evs : list event2) (c : canvas2) : canvas2 * list bool :=
  match evs with
  | [] => (c, [])
  | e :: rest =>
      let '(c', ob) := step2 c e in
      let '(c'', bs) := run2 rest c' in
      (c'', cons_flag ob bs)
  end.

(** ** Canvas3 *)

Inductive drag_mode : Type := Pan | Rotate.

(* enum Drag3 *)
Inductive drag3 : Type :=
| DPan (h : handle3)
| DRotate (h : rotate_handle).

Record canvas3 : Type := mkCanvas3 {
  c3_view : view3;
  c3_size : Z * Z * Z;             (* VoxelSize (width, height, depth) *)
  c3_drag : option drag3
}.

Definition canvas3_new (size : Z * Z * Z) : canvas3 :=
  {| c3_view := view3_default; c3_size := size; c3_drag := None |}.

Definition canvas3_from_components (v : view3) (size : Z * Z * Z) : canvas3 :=
  {| c3_view := v; c3_size := size; c3_drag := None |}.

(* Canvas3::screen_to_world: image_size.transform_point(Point3::new(x, y, 0)) *)
Definition canvas3_screen_to_world (c : canvas3) (p : Z * Z) : vec3 :=
  let '(w, h, d) := c3_size c in let '(px, py) := p in
  screen_to_world3 w h d px py 0%Z.

(* `self.image_size = image_size` (Canvas3 has no public resize; only
   [interact] assigns the size) *)
Definition canvas3_set_size (c : canvas3) (size : Z * Z * Z) : canvas3 :=
  {| c3_view := c3_view c; c3_size := size; c3_drag := c3_drag c |}.

(* Canvas3::begin_drag *)
Definition canvas3_begin_drag (c : canvas3) (pos_screen : Z * Z) (m : drag_mode)
  : canvas3 :=
  match c3_drag c with
  | None =>
      let pos_world := canvas3_screen_to_world c pos_screen in
      {| c3_view := c3_view c; c3_size := c3_size c;
         c3_drag := Some (match m with
                          | Pan => DPan (begin_translate3 (c3_view c) pos_world)
                          | Rotate => DRotate (begin_rotate (c3_view c) pos_world)
                          end) |}
  | Some _ => c
  end.

(* Canvas3::drag *)
Definition canvas3_drag (c : canvas3) (pos_screen : Z * Z) : canvas3 * bool :=
  let pos_world := canvas3_screen_to_world c pos_screen in
  match c3_drag c with
  | Some (DPan prev) =>
      let '(v', changed) := translate3 (c3_view c) prev pos_world in
      ({| c3_view := v'; c3_size := c3_size c; c3_drag := c3_drag c |}, changed)
  | Some (DRotate prev) =>
      let '(v', changed) := rotate3 (c3_view c) prev pos_world in
      ({| c3_view := v'; c3_size := c3_size c; c3_drag := c3_drag c |}, changed)
  | None => (c, false)
  end.

(* Canvas3::end_drag *)
Definition canvas3_end_drag (c : canvas3) : canvas3 :=
  {| c3_view := c3_view c; c3_size := c3_size c; c3_drag := None |}.

(* Canvas3::zoom *)
Definition canvas3_zoom (c : canvas3) (amount : T) (pos_screen : option (Z * Z))
  : canvas3 * bool :=
  let pos_world := option_map (canvas3_screen_to_world c) pos_screen in
  let '(v', changed) := view3_zoom (c3_view c) (n_exp2 N amount) pos_world in
  ({| c3_view := v'; c3_size := c3_size c; c3_drag := c3_drag c |}, changed).

(* Canvas3::interact.  cursor = Some (screen_pos, drag : Option<DragMode>) *)
Definition canvas3_interact (c : canvas3) (size : Z * Z * Z)
    (cursor : option ((Z * Z) * option drag_mode)) (scroll : T)
  : canvas3 * bool :=
  let c0 := canvas3_set_size c size in
  let '(c1, changed1, pos_screen) :=
    match cursor with
    | Some (screen_pos, Some m) =>
        let ca := canvas3_begin_drag c0 screen_pos m in
        let '(cb, ch) := canvas3_drag ca screen_pos in
        (cb, ch, Some screen_pos)
    | Some (screen_pos, None) => (canvas3_end_drag c0, false, Some screen_pos)
    | None => (canvas3_end_drag c0, false, None)
    end in
  let '(c2, changed2) := canvas3_zoom c1 scroll pos_screen in
  (c2, changed1 || changed2).

(** Events and runs, 3D.  (There is no [Canvas3::resize] in the source.) *)

Inductive event3 : Type :=
| EInteract3 (size : Z * Z * Z) (cursor : option ((Z * Z) * option drag_mode))
             (scroll : T)
| EBeginDrag3 (pos : Z * Z) (m : drag_mode)
| EDrag3 (pos : Z * Z)
| EEndDrag3
| EZoom3 (amount : T) (pos : option (Z * Z)).

Definition step3 (c : canvas3) (e : event3) : canvas3 * option bool :=
  match e with
  | EInteract3 size cursor scroll =>
      let '(c', b) := canvas3_interact c size cursor scroll in (c', Some b)
  | EBeginDrag3 pos m => (canvas3_begin_drag c pos m, None)
  | EDrag3 pos => let '(c', b) := canvas3_drag c pos in (c', Some b)
  | EEndDrag3 => (canvas3_end_drag c, None)
  | EZoom3 amount pos => let '(c', b) := canvas3_zoom c amount pos in (c', Some b)
  end.

Fixpoint run3 (evs : list event3) (c : canvas3) : canvas3 * list bool :=
  match evs with
  | [] => (c, [])
  | e :: rest =>
      let '(c', ob) := step3 c e in
      let '(c'', bs) := run3 rest c' in
      (c'', cons_flag ob bs)
  end.

End Model.

Arguments vec2 T : clear implicits.
Arguments vec3 T : clear implicits.
Arguments view2 T : clear implicits.
Arguments view3 T : clear implicits.
Arguments handle2 T : clear implicits.
Arguments handle3 T : clear implicits.
Arguments rotate_handle T : clear implicits.
Arguments drag3 T : clear implicits.
Arguments canvas2 T : clear implicits.
Arguments canvas3 T : clear implicits.
Arguments event2 T : clear implicits.
Arguments event3 T : clear implicits.
Arguments EBeginDrag2 {T}.
Arguments EDrag2 {T}.
Arguments EEndDrag2 {T}.
Arguments EResize2 {T}.
Arguments EBeginDrag3 {T}.
Arguments EDrag3 {T}.
Arguments EEndDrag3 {T}.

(** * The rational instance (executable) *)

(* The f32 constants, as exact rationals:
     std::f32::consts::TAU = 0x40C90FDB = 13176795 * 2^-21
     std::f32::consts::PI  = 0x40490FDB = 13176795 * 2^-22 *)
Definition q_tau_f32 : Q := 13176795 # 2097152.
Definition q_pi_f32  : Q := 13176795 # 4194304.

(* (amount / 100.0).exp2(): exact when amount is an integer multiple of 100
   (amount = 100*k gives 2^k, k of either sign); BY CONVENTION 1 for every
   other amount (such amounts are outside the executable tie). *)
Definition q_exp2 (amount : Q) : Q :=
  let k := Qred (amount / 100) in
  match Qden k with
  | 1%positive =>
      match Qnum k with
      | Z0 => 1
      | Zpos p => inject_Z (Z.pow_pos 2 p)
      | Zneg p => 1 # (Pos.pow 2 p)
      end
  | _ => 1
  end.

(* C fmod by the f32 constant TAU: x - TAU * trunc(x / TAU), truncation toward
   zero, so the result has the sign of the dividend.  (f32 fmod is exact, so
   this is the f32 result whenever x is an f32.)  Identity on 0. *)
Definition q_fmod_tau (x : Q) : Q :=
  let q := Qred (x / q_tau_f32) in
  let t := Z.quot (Qnum q) (Zpos (Qden q)) in
  Qred (x - q_tau_f32 * inject_Z t).

(* f32::clamp(0.0, PI) with the f32 constant PI.  Identity on 0. *)
Definition q_clamp_0_pi (x : Q) : Q :=
  if Qle_bool 0 x then (if Qle_bool x q_pi_f32 then x else q_pi_f32) else 0.

(* Results are kept in lowest terms ([Qred]) so that runs stay small and the
   extracted values are canonical.  [n_sin]/[n_cos] are the constants 0 / 1:
   they are only correct at angle 0, i.e. the executable tie must keep
   yaw = pitch = 0 whenever a 3D point transform is evaluated (zoom about a
   position, pan).  Division by zero is 0 in Q (inf/NaN in f32): sizes must be
   positive in the tie. *)
Definition q_num : Num Q := {|
  n_add := fun x y => Qred (x + y);
  n_sub := fun x y => Qred (x - y);
  n_mul := fun x y => Qred (x * y);
  n_div := fun x y => Qred (x / y);
  n_opp := fun x => Qred (- x);
  n_zero := 0;
  n_one := 1;
  n_two := 2;
  n_neqb := fun x y => negb (Qeq_bool x y);
  n_exp2 := q_exp2;
  n_sin := fun _ => 0;
  n_cos := fun _ => 1;
  n_fmod_tau := q_fmod_tau;
  n_clamp_0_pi := q_clamp_0_pi;
  n_of_Z := inject_Z
|}.

(** Monomorphic entry points for extraction. *)
Definition q_view2_default := view2_default q_num.
Definition q_view2_w2m_point := view2_w2m_point q_num.
Definition q_view2_zoom := view2_zoom q_num.
Definition q_begin_translate2 := begin_translate2 q_num.
Definition q_translate2 := translate2 q_num.
Definition q_view3_default := view3_default q_num.
Definition q_view3_w2m_point := view3_w2m_point q_num.
Definition q_view3_zoom := view3_zoom q_num.
Definition q_begin_translate3 := begin_translate3 q_num.
Definition q_translate3 := translate3 q_num.
Definition q_begin_rotate := @begin_rotate Q.
Definition q_rotate3 := rotate3 q_num.
Definition q_screen_to_world2 := screen_to_world2 q_num.
Definition q_screen_to_world3 := screen_to_world3 q_num.
Definition q_canvas2_new := canvas2_new q_num.
Definition q_canvas2_interact := canvas2_interact q_num.
Definition q_canvas2_begin_drag := canvas2_begin_drag q_num.
Definition q_canvas2_drag := canvas2_drag q_num.
Definition q_canvas2_end_drag := @canvas2_end_drag Q.
Definition q_canvas2_zoom := canvas2_zoom q_num.
Definition q_canvas2_resize := @canvas2_resize Q.
Definition q_step2 := step2 q_num.
Definition q_run2 := run2 q_num.
Definition q_canvas3_new := canvas3_new q_num.
Definition q_canvas3_interact := canvas3_interact q_num.
Definition q_canvas3_begin_drag := canvas3_begin_drag q_num.
Definition q_canvas3_drag := canvas3_drag q_num.
Definition q_canvas3_end_drag := @canvas3_end_drag Q.
Definition q_canvas3_zoom := canvas3_zoom q_num.
Definition q_step3 := step3 q_num.
Definition q_run3 := run3 q_num.

(** * The real instance (specification level; not meant to be extracted) *)

From Coq Require Import Reals.

Definition r_neqb (x y : R) : bool := if Req_EM_T x y then false else true.

(* (amount / 100.0).exp2() *)
Definition r_exp2 (amount : R) : R := Rpower 2 (amount / 100).

(* truncation toward zero *)
Definition r_trunc (x : R) : R :=
  if Rle_dec 0 x then IZR (Int_part x) else (- IZR (Int_part (- x)))%R.

(* C fmod by 2*PI: x - 2PI * trunc (x / 2PI); sign of the dividend *)
Definition r_fmod_tau (x : R) : R := (x - (2 * PI) * r_trunc (x / (2 * PI)))%R.

(* f32::clamp(0, PI): if x < 0 {0} else if x > PI {PI} else {x} *)
Definition r_clamp_0_pi (x : R) : R :=
  if Rlt_dec x 0 then 0%R else if Rlt_dec PI x then PI else x.

Definition r_num : Num R := {|
  n_add := Rplus;
  n_sub := Rminus;
  n_mul := Rmult;
  n_div := Rdiv;
  n_opp := Ropp;
  n_zero := 0%R;
  n_one := 1%R;
  n_two := 2%R;
  n_neqb := r_neqb;
  n_exp2 := r_exp2;
  n_sin := sin;
  n_cos := cos;
  n_fmod_tau := r_fmod_tau;
  n_clamp_0_pi := r_clamp_0_pi;
  n_of_Z := IZR
|}.

(** * Executable examples (Q instance) *)

Local Open Scope Q_scope.

(* screen_to_world: the region.rs unit test (size 1000 x 500) *)
Example s2w_a : q_screen_to_world2 1000 500 500 249 = (0, 0).
Proof. vm_compute. reflexivity. Qed.
Example s2w_b : q_screen_to_world2 1000 500 500 (-1) = (0, 1).
Proof. vm_compute. reflexivity. Qed.
Example s2w_c : q_screen_to_world2 1000 500 500 499 = (0, -1 # 1).
Proof. vm_compute. reflexivity. Qed.
Example s2w_d : q_screen_to_world2 1000 500 0 249 = (-2 # 1, 0).
Proof. vm_compute. reflexivity. Qed.
Example s2w_e : q_screen_to_world2 1000 500 1000 249 = (2, 0).
Proof. vm_compute. reflexivity. Qed.

(* the View2 doc-test *)
Example view2_doc :
  let v := view2_from_components (5, 5) 1 in
  (q_view2_w2m_point v (0,0), q_view2_w2m_point v (1,0), q_view2_w2m_point v (-1#1,0),
   q_view2_w2m_point v (0,1), q_view2_w2m_point v (0,-1#1))
  = ((5,5), (6,5), (4,5), (5,6), (5,4)).
Proof. vm_compute. reflexivity. Qed.

Eval vm_compute in (q_exp2 0, q_exp2 100, q_exp2 (-200 # 1), q_exp2 300, q_exp2 50).

(* a 2D callback-mode session on a 256x256 canvas *)
Eval vm_compute in
  q_run2 [ EBeginDrag2 (128, 127)%Z; EDrag2 (128, 127)%Z; EDrag2 (192, 63)%Z;
           EEndDrag2; EDrag2 (0, 0)%Z;
           EZoom2 100 (Some (192, 63)%Z); EZoom2 0 None; EZoom2 (-100 # 1) None;
           EResize2 (512, 256)%Z; EBeginDrag2 (0,0)%Z; EDrag2 (16, 16)%Z ]
         (q_canvas2_new (256, 256)%Z).

(* a 2D immediate-mode session *)
Eval vm_compute in
  q_run2 [ EInteract2 (256,256)%Z (Some ((10, 10)%Z, true)) 0;
           EInteract2 (256,256)%Z (Some ((20, 30)%Z, true)) 0;
           EInteract2 (256,256)%Z (Some ((20, 30)%Z, true)) 0;
           EInteract2 (256,256)%Z (Some ((20, 30)%Z, false)) 200;
           EInteract2 (128,256)%Z None 0 ]
         (q_canvas2_new (256, 256)%Z).

(* a 3D session: pan, zoom, rotate without motion (yaw = pitch = 0 throughout) *)
Eval vm_compute in
  q_run3 [ EBeginDrag3 (64, 64)%Z Pan; EDrag3 (32, 96)%Z; EEndDrag3;
           EZoom3 100 (Some (0, 0)%Z);
           EInteract3 (128,128,128)%Z (Some ((5,5)%Z, Some Rotate)) 0;
           EInteract3 (128,128,128)%Z (Some ((5,5)%Z, Some Rotate)) (-100 # 1);
           EInteract3 (128,128,128)%Z None 0 ]
         (q_canvas3_new (128, 128, 128)%Z).

(* rotate: yaw/pitch components with the f32 constants (no point transform
   is evaluated afterwards) *)
Eval vm_compute in
  q_run3 [ EBeginDrag3 (64, 64)%Z Rotate; EDrag3 (0, 0)%Z; EDrag3 (-1000, 1000)%Z ]
         (q_canvas3_new (128, 128, 128)%Z).
