(* GradSound.v — property C05: the gradient evaluator (Grad.v, real instance RFL.r_fl)
   returns the value and the partial derivatives of the expression, whatever derivative
   seeds the caller supplies.

   Per opcode (forward-mode statement along an arbitrary differentiable curve, for any of
   the three derivative lanes [l : lane], [gl LX = gx], [gl LY = gy], [gl LZ = gz]):
     [grad_un_sound], [grad_bin_sound], [grad_ri_sound], [grad_ir_sound]
   under the differentiability side conditions [ok_un] / [ok_bin].
   Covered: every unary opcode except Rand, every binary opcode (incl. atan2 and Mod)
   except Mix; the immediate forms of the interpreter loop incl. [gmul_f] for BMul.
   No formula of Grad.v was found wrong: under the side conditions every lane is the
   derivative.  At the excluded kinks the model returns the one-sided derivative of the
   branch it takes ([abs_at_zero], [min_at_tie] show that this is not the derivative).

   Through any composition (chain rule through any tape): [grad_tape_sound] (lines
   p + s * seed), [grad_tape_partials] (seeds (1,0,0),(0,1,0),(0,0,1): the lanes are the
   three partial derivatives), [grad_tape_sound_curve] / [grad_curve_sound] (arbitrary
   differentiable input curves; the latter phrased with [curve_sem] and
   Related.tape_related).  The guard is on OPERATIONS: [tape_ok] checks [ok_un]/[ok_bin]
   on the run of the point evaluator [r_sem] at the input point.

   Transformable: [gtransform_sound] (projective), [gtransform_affine] (Jacobian product). *)
From Coq Require Import Reals ZArith Bool List Lra Lia.
From Coquelicot Require Import Coquelicot.
From Flocq Require Import Raux.
From FV Require Import Ops Tape Interval Grad RFL.
Import ListNotations.
Local Open Scope R_scope.

Notation G := (grad R).
Notation gs := (grad_sem r_fl r_div_euclid).
Notation gun := (g_un r_fl).   (* g_un does not use div_euclid *)
Notation gbin := (g_bin r_fl r_div_euclid).

(* ---- lanes ---- *)
Inductive lane := LX | LY | LZ.
Definition gl (l : lane) (g : G) : R :=
  match l with LX => gx g | LY => gy g | LZ => gz g end.

(* the tangent maps of the opcodes, READ OFF the model: lane x of the result when the
   argument has value v and lane x equal to d *)
Definition mk1 (v d : R) : G := {| gv := v; gx := d; gy := 0; gz := 0 |}.
Definition d_un (u : uop) (v d : R) : R := gx (gun u (mk1 v d)).
Definition d_bin (b : bop) (x y dx dy : R) : R := gx (gbin b (mk1 x dx) (mk1 y dy)).

(* all three lanes are computed by the same formula *)
Lemma lane_un u g l : gl l (gun u g) = d_un u (gv g) (gl l g).
Proof.
  destruct g as [v dx dy dz]. unfold d_un.
  destruct u, l; simpl; unfold gabs, gnot; simpl; try reflexivity;
    destruct (r_ltb v 0); reflexivity.
Qed.

Lemma lane_bin b g h l : gl l (gbin b g h) = d_bin b (gv g) (gv h) (gl l g) (gl l h).
Proof.
  destruct g as [v dx dy dz], h as [w ex ey ez]. unfold d_bin.
  destruct b, l; simpl; unfold gmin, gmax, gand, gor; simpl; try reflexivity;
    try (destruct (r_ltb v w); reflexivity); try (destruct (r_ltb w v); reflexivity);
    destruct (r_eqb v 0); reflexivity.
Qed.

(* the value lane is the point semantics *)
Lemma val_un u g : gv (gun u g) = r_un u (gv g).
Proof.
  destruct g as [v dx dy dz]. destruct u; simpl; try reflexivity.
  - unfold gabs; simpl. unfold r_ltb, Rabs.
    destruct (Rlt_dec v 0), (Rcase_abs v); simpl; try reflexivity; lra.
  - unfold r_eqb. destruct (Req_EM_T v 0); reflexivity.
Qed.

Lemma val_bin b g h : gv (gbin b g h) = r_bin b (gv g) (gv h).
Proof.
  destruct g as [v dx dy dz], h as [w ex ey ez]. destruct b; simpl; try reflexivity.
  - unfold gmin; simpl. unfold r_ltb, Rmin. destruct (Rlt_dec v w), (Rle_dec v w); simpl; lra.
  - unfold gmax; simpl. unfold r_ltb, Rmax. destruct (Rlt_dec w v), (Rle_dec v w); simpl; lra.
  - unfold r_compare, r_ltb. destruct (Rlt_dec v w); [reflexivity|]. destruct (Rlt_dec w v); reflexivity.
  - unfold gand; simpl. unfold r_eqb. destruct (Req_EM_T v 0); reflexivity.
  - unfold gor; simpl. unfold r_eqb. destruct (Req_EM_T v 0); reflexivity.
Qed.

(* ---- local reasoning along a curve ---- *)
Lemma cont_locally (a : R -> R) t (P : R -> Prop) :
  continuous a t -> locally (a t) P -> locally t (fun s => P (a s)).
Proof. intros Ha HP. exact (Ha P HP). Qed.

Lemma der_cont (a : R -> R) t da : is_derive a t da -> continuous a t.
Proof. intros H. apply (ex_derive_continuous a t). eexists; exact H. Qed.

Lemma locally_lt (a c : R -> R) t :
  continuous a t -> continuous c t -> a t < c t -> locally t (fun s => a s < c s).
Proof.
  intros Ha Hc H.
  assert (Hm : continuous (fun s => minus (c s) (a s)) t) by (apply (continuous_minus c a); assumption).
  assert (H0 : locally (minus (c t) (a t)) (fun d => 0 < d)).
  { apply (open_gt 0). unfold minus, plus, opp; simpl. lra. }
  pose proof (cont_locally _ t _ Hm H0) as L.
  revert L. apply filter_imp. intros s. unfold minus, plus, opp; simpl. lra.
Qed.

Lemma locally_lt_l (a : R -> R) t c : continuous a t -> a t < c -> locally t (fun s => a s < c).
Proof. intros Ha H. apply (locally_lt a (fun _ => c) t); auto. apply continuous_const. Qed.
Lemma locally_lt_r (a : R -> R) t c : continuous a t -> c < a t -> locally t (fun s => c < a s).
Proof. intros Ha H. apply (locally_lt (fun _ => c) a t); auto. apply continuous_const. Qed.
Lemma locally_neq (a : R -> R) t c : continuous a t -> a t <> c -> locally t (fun s => a s <> c).
Proof. intros Ha H. apply (cont_locally a t (fun u => u <> c) Ha). now apply (open_neq c). Qed.

Lemma is_derive_eq (f : R -> R) (t l l' : R) : is_derive f t l -> l = l' -> is_derive f t l'.
Proof. intros H <-; auto. Qed.

(* a function locally equal to a constant has derivative 0 *)
Lemma is_derive_loc_const (f : R -> R) t c :
  locally t (fun s => f s = c) -> is_derive f t 0.
Proof.
  intros H. apply (is_derive_ext_loc (fun _ => c) f).
  - revert H. apply filter_imp. intros s E. now symmetry.
  - apply @is_derive_const.
Qed.

(* ---- differentiability side conditions ---- *)
Definition ok_un (u : uop) (x : R) : Prop :=
  match u with
  | UNeg | USquare | USin | UCos | UAtan | UExp | UCopy => True
  | UAbs | URecip | UNot => x <> 0
  | USqrt | ULn => 0 < x
  | UFloor | UCeil => ~ is_int x
  | URound => ~ is_int (x + / 2)
  | UTan => cos x <> 0
  | UAsin | UAcos => -1 < x < 1
  | URand => False
  end.

Lemma is_derive_asin x : -1 < x < 1 -> is_derive asin x (1 / sqrt (1 - x²)).
Proof.
  intros H. apply is_derive_Reals. rewrite <- (derive_pt_asin x H).
  apply derive_pt_eq_1 with (pr := derivable_pt_asin x H). reflexivity.
Qed.
Lemma is_derive_acos x : -1 < x < 1 -> is_derive acos x (-1 / sqrt (1 - x²)).
Proof.
  intros H. apply is_derive_Reals. rewrite <- (derive_pt_acos x H).
  apply derive_pt_eq_1 with (pr := derivable_pt_acos x H). reflexivity.
Qed.

(* chain rule for a unary function with a known derivative *)
Lemma der_comp (f a : R -> R) (t da df l : R) :
  is_derive f (a t) df -> is_derive a t da -> l = da * df ->
  is_derive (fun s => f (a s)) t l.
Proof. intros Hf Ha ->. exact (is_derive_comp f a t df da Hf Ha). Qed.

Theorem der_un u (a : R -> R) t da :
  ok_un u (a t) -> is_derive a t da ->
  is_derive (fun s => r_un u (a s)) t (d_un u (a t) da).
Proof.
  intros Hok Ha. pose proof (der_cont _ _ _ Ha) as Ca.
  destruct u; unfold d_un; simpl in *.
  - (* Neg *) exact (is_derive_opp a t da Ha).
  - (* Abs *) unfold gabs; simpl. apply (is_derive_eq _ _ _ _ (is_derive_Rabs a t da Ha Hok)).
    unfold r_ltb. destruct (Rlt_dec (a t) 0); simpl.
    + rewrite sign_eq_m1 by assumption. ring.
    + rewrite sign_eq_1 by lra. ring.
  - (* Recip *) apply (is_derive_eq _ _ _ _ (is_derive_div (fun _ => 1) a t 0 da (is_derive_const 1 t) Ha Hok)).
    unfold Interval.powi2; simpl. now field.
  - (* Sqrt *) exact (is_derive_sqrt a t da Ha Hok).
  - (* Square *) apply (is_derive_eq _ _ _ _ (Derive.is_derive_mult a a t da da Ha Ha)). nra.
  - (* Floor *) apply is_derive_loc_const with (c := r_floor (a t)).
    pose proof (not_int_floor_lt _ Hok) as [H1 H2].
    generalize (filter_and _ _ (locally_lt_r a t _ Ca H1) (locally_lt_l a t _ Ca H2)).
    apply filter_imp. intros s Hs. now apply floor_const.
  - (* Ceil *) apply is_derive_loc_const with (c := r_ceil (a t)).
    pose proof (not_int_floor_lt _ Hok) as [H1 H2].
    generalize (filter_and _ _ (locally_lt_r a t _ Ca H1) (locally_lt_l a t _ Ca H2)).
    apply filter_imp. intros s Hs.
    rewrite (ceil_floor_open (a t) (a s)) by assumption. symmetry. apply ceil_floor_open. lra.
  - (* Round *) apply is_derive_loc_const with (c := r_round (a t)).
    pose proof (not_int_floor_lt _ Hok) as [H1 H2].
    assert (H1' : IZR (Zfloor (a t + /2)) - /2 < a t) by lra.
    assert (H2' : a t < IZR (Zfloor (a t + /2)) + 1 - /2) by lra.
    generalize (filter_and _ _ (locally_lt_r a t _ Ca H1') (locally_lt_l a t _ Ca H2')).
    apply filter_imp. intros s Hs.
    rewrite (round_open (a t) (a s)) by lra. symmetry. apply round_open. lra.
  - (* Sin *) apply (der_comp sin a t da _ _ (is_derive_sin _) Ha). reflexivity.
  - (* Cos *) apply (der_comp cos a t da _ _ (is_derive_cos _) Ha). reflexivity.
  - (* Tan *) apply (der_comp tan a t da _ _ (is_derive_tan _ Hok) Ha).
    unfold Interval.powi2, tan; simpl. pose proof (sin2_cos2 (a t)) as E. unfold Rsqr in E.
    field_simplify_eq; [|assumption]. 
    replace (sin (a t) ^ 2) with (1 - cos (a t) * cos (a t)) by (rewrite <- E; ring). ring.
  - (* Asin *) apply (der_comp asin a t da _ _ (is_derive_asin _ Hok) Ha).
    unfold Interval.powi2, Rsqr; simpl.
    assert (0 < sqrt (1 - a t * a t)) by (apply sqrt_lt_R0; nra). field. lra.
  - (* Acos *) apply (der_comp acos a t da _ _ (is_derive_acos _ Hok) Ha).
    unfold Interval.powi2, Rsqr; simpl.
    assert (0 < sqrt (1 - a t * a t)) by (apply sqrt_lt_R0; nra). field. lra.
  - (* Atan *) apply (der_comp atan a t da _ _ (is_derive_atan _) Ha).
    unfold Interval.powi2, Rsqr; simpl. field. nra.
  - (* Exp *) apply (der_comp exp a t da _ _ (is_derive_exp _) Ha). simpl. ring.
  - (* Ln *) apply (der_comp ln a t da _ _ (is_derive_ln _ Hok) Ha). simpl. unfold Rdiv. ring.
  - (* Not *) apply is_derive_loc_const with (c := 0).
    generalize (locally_neq a t 0 Ca Hok). apply filter_imp. intros s Hs.
    destruct (Req_EM_T (a s) 0); [contradiction | reflexivity].
  - (* Rand *) contradiction.
  - (* Copy *) exact Ha.
Qed.

(* ---- binary opcodes ---- *)
(* [x] is the left operand, [y] the right one.  For BAtan the left operand is the "y" of
   atan2 and the right one its "x": the condition excludes the branch cut (x <= 0, y = 0). *)
Definition ok_bin (b : bop) (x y : R) : Prop :=
  match b with
  | BAdd | BSub | BMul => True
  | BDiv => y <> 0
  | BAtan => 0 < y \/ x <> 0
  | BMin | BMax | BCompare => x <> y
  | BMod => y <> 0 /\ ~ is_int (x / y)
  | BAnd | BOr => x <> 0
  | BMix => False
  end.

(* atan2 in the upper / lower half plane *)
Lemma atan2_pos_y y x : 0 < y -> r_atan2 y x = PI / 2 - atan (x / y).
Proof.
  intros Hy. unfold r_atan2.
  destruct (Rlt_dec 0 x) as [Hx|Hx].
  - replace (y / x) with (/ (x / y)) by (field; lra).
    apply atan_inv. apply Rdiv_lt_0_compat; lra.
  - destruct (Rlt_dec x 0) as [Hx'|Hx'].
    + destruct (Rle_dec 0 y); [|lra].
      replace (y / x) with (- / ((- x) / y)) by (field; lra).
      rewrite atan_opp, atan_inv by (apply Rdiv_lt_0_compat; lra).
      replace (- x / y) with (- (x / y)) by (field; lra). rewrite atan_opp. lra.
    + destruct (Rlt_dec 0 y); [|lra]. assert (x = 0) as -> by lra.
      unfold Rdiv. rewrite Rmult_0_l, atan_0. lra.
Qed.

Lemma atan2_neg_y y x : y < 0 -> r_atan2 y x = - (PI / 2) - atan (x / y).
Proof.
  intros Hy. unfold r_atan2.
  destruct (Rlt_dec 0 x) as [Hx|Hx].
  - replace (y / x) with (- / (x / (- y))) by (field; lra).
    rewrite atan_opp, atan_inv by (apply Rdiv_lt_0_compat; lra).
    replace (x / - y) with (- (x / y)) by (field; lra). rewrite atan_opp. lra.
  - destruct (Rlt_dec x 0) as [Hx'|Hx'].
    + destruct (Rle_dec 0 y); [lra|].
      replace (y / x) with (/ (x / y)) by (field; lra).
      rewrite atan_inv; [lra|].
      replace (x / y) with ((- x) / (- y)) by (field; lra). apply Rdiv_lt_0_compat; lra.
    + destruct (Rlt_dec 0 y); [lra|]. destruct (Rlt_dec y 0); [|lra]. assert (x = 0) as -> by lra.
      unfold Rdiv. rewrite Rmult_0_l, atan_0. lra.
Qed.

(* d/ds atan (f s / g s) *)
Lemma der_atan_div (f g : R -> R) t df dg :
  is_derive f t df -> is_derive g t dg -> g t <> 0 ->
  is_derive (fun s => atan (f s / g s)) t ((g t * df - f t * dg) / (g t * g t + f t * f t)).
Proof.
  intros Hf Hg H0.
  apply (der_comp atan (fun s => f s / g s) t _ _ _ (is_derive_atan _) (is_derive_div f g t df dg Hf Hg H0)).
  unfold Rsqr. field. split; [assumption | nra].
Qed.

Theorem der_bin b (a c : R -> R) t da dc :
  ok_bin b (a t) (c t) -> is_derive a t da -> is_derive c t dc ->
  is_derive (fun s => r_bin b (a s) (c s)) t (d_bin b (a t) (c t) da dc).
Proof.
  intros Hok Ha Hc. pose proof (der_cont _ _ _ Ha) as Ca. pose proof (der_cont _ _ _ Hc) as Cc.
  destruct b; unfold d_bin; simpl in *.
  - (* Add *) exact (is_derive_plus a c t da dc Ha Hc).
  - (* Sub *) exact (is_derive_minus a c t da dc Ha Hc).
  - (* Mul *) apply (is_derive_eq _ _ _ _ (Derive.is_derive_mult a c t da dc Ha Hc)). nra.
  - (* Div *) apply (is_derive_eq _ _ _ _ (is_derive_div a c t da dc Ha Hc Hok)).
    unfold Interval.powi2; simpl. now field.
  - (* Atan2 *) unfold Interval.powi2; simpl.
    destruct Hok as [Hx | Hy].
    + apply (is_derive_ext_loc (fun s => atan (a s / c s))).
      * generalize (locally_lt_r c t 0 Cc Hx). apply filter_imp. intros s Hs.
        unfold r_atan2. destruct (Rlt_dec 0 (c s)); [reflexivity | contradiction].
      * apply der_atan_div; auto. lra.
    + destruct (Rtotal_order (a t) 0) as [Hn | [E | Hp]]; [| contradiction |].
      * apply (is_derive_ext_loc (fun s => - (PI / 2) - atan (c s / a s))).
        { generalize (locally_lt_l a t 0 Ca Hn). apply filter_imp. intros s Hs.
          symmetry. now apply atan2_neg_y. }
        apply (is_derive_eq _ _ _ _
                 (is_derive_minus (fun _ => - (PI / 2)) _ t 0 _ (is_derive_const _ t)
                    (der_atan_div c a t dc da Hc Ha Hy))).
        unfold minus, plus, opp, zero; simpl. field. nra.
      * apply (is_derive_ext_loc (fun s => PI / 2 - atan (c s / a s))).
        { generalize (locally_lt_r a t 0 Ca Hp). apply filter_imp. intros s Hs.
          symmetry. now apply atan2_pos_y. }
        apply (is_derive_eq _ _ _ _
                 (is_derive_minus (fun _ => PI / 2) _ t 0 _ (is_derive_const _ t)
                    (der_atan_div c a t dc da Hc Ha Hy))).
        unfold minus, plus, opp, zero; simpl. field. nra.
  - (* Min *) unfold gmin; simpl.
    destruct (Rlt_dec (a t) (c t)) as [L|L]; [rewrite (r_ltb_true _ _ L) | rewrite (r_ltb_false _ _ L)]; simpl.
    + apply (is_derive_ext_loc a); [|exact Ha].
      generalize (locally_lt a c t Ca Cc L). apply filter_imp. intros s Hs.
      symmetry. apply Rmin_left. lra.
    + apply (is_derive_ext_loc c); [|exact Hc].
      assert (L' : c t < a t) by lra.
      generalize (locally_lt c a t Cc Ca L'). apply filter_imp. intros s Hs.
      symmetry. apply Rmin_right. lra.
  - (* Max *) unfold gmax; simpl.
    destruct (Rlt_dec (c t) (a t)) as [L|L]; [rewrite (r_ltb_true _ _ L) | rewrite (r_ltb_false _ _ L)]; simpl.
    + apply (is_derive_ext_loc a); [|exact Ha].
      generalize (locally_lt c a t Cc Ca L). apply filter_imp. intros s Hs.
      symmetry. apply Rmax_left. lra.
    + apply (is_derive_ext_loc c); [|exact Hc].
      assert (L' : a t < c t) by lra.
      generalize (locally_lt a c t Ca Cc L'). apply filter_imp. intros s Hs.
      symmetry. apply Rmax_right. lra.
  - (* Compare *)
    destruct (Rtotal_order (a t) (c t)) as [L | [E | L]]; [| contradiction |].
    + apply is_derive_loc_const with (c := -1).
      generalize (locally_lt a c t Ca Cc L). apply filter_imp. intros s Hs.
      unfold r_compare. destruct (Rlt_dec (a s) (c s)); [reflexivity | contradiction].
    + apply is_derive_loc_const with (c := 1).
      generalize (locally_lt c a t Cc Ca L). apply filter_imp. intros s Hs.
      unfold r_compare. destruct (Rlt_dec (a s) (c s)); [lra|].
      destruct (Rlt_dec (c s) (a s)); [reflexivity | contradiction].
  - (* Mod *)
    destruct Hok as [H0 Hni].
    pose proof (der_cont _ _ _ (is_derive_div a c t da dc Ha Hc H0)) as Cq.
    pose proof (not_int_floor_lt _ Hni) as [H1 H2].
    pose proof (filter_and _ _ (locally_lt_r _ t _ Cq H1) (locally_lt_l _ t _ Cq H2)) as Lq.
    apply (is_derive_ext_loc (fun s => a s - c s * r_div_euclid (a t) (c t))).
    + unfold r_rem_euclid, r_div_euclid.
      destruct (Rlt_dec 0 (c t)) as [P|P].
      * generalize (filter_and _ _ Lq (locally_lt_r c t 0 Cc P)). apply filter_imp.
        intros s [Hs Hp]. destruct (Rlt_dec 0 (c s)); [|contradiction].
        now rewrite (floor_const (a t / c t) (a s / c s)).
      * assert (P' : c t < 0) by lra.
        generalize (filter_and _ _ Lq (locally_lt_l c t 0 Cc P')). apply filter_imp.
        intros s [Hs Hp]. destruct (Rlt_dec 0 (c s)); [lra|].
        rewrite (ceil_floor_open (a t / c t) (a s / c s)) by assumption.
        rewrite (ceil_floor_open (a t / c t) (a t / c t)) by lra. reflexivity.
    + apply (is_derive_minus a (fun s => c s * r_div_euclid (a t) (c t)) t da).
      * exact Ha.
      * apply (is_derive_eq _ _ _ _
                 (Derive.is_derive_mult c (fun _ => r_div_euclid (a t) (c t)) t dc 0 Hc (is_derive_const _ t))).
        simpl. ring.
  - (* And *) unfold gand; simpl. rewrite (r_eqb_false _ _ Hok); simpl.
    apply (is_derive_ext_loc c); [|exact Hc].
    generalize (locally_neq a t 0 Ca Hok). apply filter_imp. intros s Hs.
    destruct (Req_EM_T (a s) 0); [contradiction | reflexivity].
  - (* Or *) unfold gor; simpl. rewrite (r_eqb_false _ _ Hok); simpl.
    apply (is_derive_ext_loc a); [|exact Ha].
    generalize (locally_neq a t 0 Ca Hok). apply filter_imp. intros s Hs.
    destruct (Req_EM_T (a s) 0); [contradiction | reflexivity].
  - (* Mix *) contradiction.
Qed.

(* ================= per-opcode soundness, as stated in C05 ================= *)
(* [l] is any of the three derivative lanes. *)
Theorem grad_un_sound u (a : R -> R) t da l :
  ok_un u (a t) -> is_derive a t da ->
  forall g, gv g = a t -> gl l g = da ->
  gv (gun u g) = r_un u (a t) /\
  is_derive (fun s => r_un u (a s)) t (gl l (gun u g)).
Proof.
  intros Hok Ha g Hv Hd. split.
  - now rewrite val_un, Hv.
  - rewrite lane_un, Hv, Hd. now apply der_un.
Qed.

Theorem grad_bin_sound b (a c : R -> R) t da dc l :
  ok_bin b (a t) (c t) -> is_derive a t da -> is_derive c t dc ->
  forall g h, gv g = a t -> gl l g = da -> gv h = c t -> gl l h = dc ->
  gv (gbin b g h) = r_bin b (a t) (c t) /\
  is_derive (fun s => r_bin b (a s) (c s)) t (gl l (gbin b g h)).
Proof.
  intros Hok Ha Hc g h Hv Hd Hw He. split.
  - now rewrite val_bin, Hv, Hw.
  - rewrite lane_bin, Hv, Hd, Hw, He. now apply der_bin.
Qed.

(* immediate forms of the interpreter loop; BMul with an immediate is [gmul_f] *)
Lemma gl_gfrom l c : gl l (gfrom r_fl c) = 0.
Proof. destruct l; reflexivity. Qed.

Lemma val_ri b g c : gv (s_ri gs b g c) = r_bin b (gv g) c.
Proof. destruct b; try exact (val_bin _ g (gfrom r_fl c)). reflexivity. Qed.
Lemma lane_ri b g c l : gl l (s_ri gs b g c) = d_bin b (gv g) c (gl l g) 0.
Proof.
  destruct b; try (rewrite <- (gl_gfrom l c); exact (lane_bin _ g (gfrom r_fl c) l)).
  destruct g, l; unfold d_bin; simpl; ring.
Qed.
Lemma val_ir b c g : gv (s_ir gs b c g) = r_bin b c (gv g).
Proof. exact (val_bin b (gfrom r_fl c) g). Qed.
Lemma lane_ir b c g l : gl l (s_ir gs b c g) = d_bin b c (gv g) 0 (gl l g).
Proof. rewrite <- (gl_gfrom l c). exact (lane_bin b (gfrom r_fl c) g l). Qed.

Theorem grad_ri_sound b (a : R -> R) c t da l :
  ok_bin b (a t) c -> is_derive a t da ->
  forall g, gv g = a t -> gl l g = da ->
  gv (s_ri gs b g c) = r_bin b (a t) c /\
  is_derive (fun s => r_bin b (a s) c) t (gl l (s_ri gs b g c)).
Proof.
  intros Hok Ha g Hv Hd. split.
  - now rewrite val_ri, Hv.
  - rewrite lane_ri, Hv, Hd.
    exact (der_bin b a (fun _ => c) t da 0 Hok Ha (is_derive_const c t)).
Qed.

Theorem grad_ir_sound b c (a : R -> R) t da l :
  ok_bin b c (a t) -> is_derive a t da ->
  forall g, gv g = a t -> gl l g = da ->
  gv (s_ir gs b c g) = r_bin b c (a t) /\
  is_derive (fun s => r_bin b c (a s)) t (gl l (s_ir gs b c g)).
Proof.
  intros Hok Ha g Hv Hd. split.
  - now rewrite val_ir, Hv.
  - rewrite lane_ir, Hv, Hd.
    exact (der_bin b (fun _ => c) a t 0 da Hok (is_derive_const c t) Ha).
Qed.

(* ================= through any composition ================= *)
(* The differentiability side condition of one tape operation, given the point values
   of the slots it reads. *)
Definition op_ok (o : op R) (v : nat -> R) : Prop :=
  match o with
  | OUn u _ arg => ok_un u (v arg)
  | OBinRR b _ lhs rhs => ok_bin b (v lhs) (v rhs)
  | OBinRI b _ arg c => ok_bin b (v arg) c
  | OBinIR b _ arg c => ok_bin b c (v arg)
  | _ => True
  end.

(* every operation of the run of the POINT evaluator on [inputs] satisfies it *)
Fixpoint ops_ok (inputs : list R) (ops : list (op R)) (a : mstate (V:=R)) : Prop :=
  match ops with
  | [] => True
  | o :: rest => op_ok o (m_slots a) /\ ops_ok inputs rest (step r_sem inputs a o)
  end.

Definition tape_ok (tape : list (op R)) (noutputs : nat) (p : list R) : Prop :=
  ops_ok p (rev tape) (init_state (fresh_env r_sem) (fresh_out r_sem noutputs)).

(* a family of point values (indexed by a curve parameter) vs a grad value: at parameter
   [t] the value lane is the value and lane [l] is the derivative *)
Definition drel (l : lane) (t : R) (f : R -> R) (g : G) : Prop :=
  gv g = f t /\ is_derive f t (gl l g).

Lemma drel_ext l t (f f' : R -> R) g : (forall s, f s = f' s) -> drel l t f g -> drel l t f' g.
Proof.
  intros E [H1 H2]. split; [now rewrite <- E|]. now apply (is_derive_ext f f').
Qed.

Lemma drel_const l t c : drel l t (fun _ => c) (gfrom r_fl c).
Proof. split; [reflexivity|]. rewrite gl_gfrom. apply @is_derive_const. Qed.

Lemma length_list_upd {A} (xs : list A) k v : length (list_upd xs k v) = length xs.
Proof. revert k. induction xs as [|x xs IH]; intros [|k]; simpl; auto. Qed.

Lemma nth_list_upd {A} (xs : list A) k v i d :
  nth i (list_upd xs k v) d = if Nat.eqb i k && Nat.ltb k (length xs) then v else nth i xs d.
Proof.
  revert k i. induction xs as [|x xs IH]; intros k i.
  - replace (Nat.ltb k (length (@nil A))) with false by (destruct k; reflexivity).
    rewrite andb_false_r. destruct k; reflexivity.
  - destruct k, i; simpl; auto. rewrite IH. reflexivity.
Qed.

Lemma nth_repeat_dflt {A} (d : A) n i : nth i (repeat d n) d = d.
Proof.
  destruct (Nat.ltb i n) eqn:E.
  - apply nth_repeat.
  - apply PeanoNat.Nat.ltb_ge in E. apply nth_overflow. now rewrite repeat_length.
Qed.

Section TapeSound.
Variable l : lane.                 (* which derivative lane *)
Variable t : R.                    (* curve parameter at which we differentiate *)
Variable inp : R -> list R.        (* the input point, moving along a curve *)
Variable gin : list G.             (* the inputs of the gradient evaluator *)
Hypothesis Hinp : forall i, drel l t (fun s => nth i (inp s) 0) (nth i gin (gfrom r_fl 0)).

(* all slots and all outputs are related *)
Definition sinv (A : R -> mstate (V:=R)) (b : mstate (V:=G)) : Prop :=
  (forall k, drel l t (fun s => m_slots (A s) k) (m_slots b k)) /\
  (forall s, length (m_out (A s)) = length (m_out b)) /\
  (forall i, drel l t (fun s => nth i (m_out (A s)) 0) (nth i (m_out b) (gfrom r_fl 0))).

Lemma sinv_set A b k (f : R -> R) g :
  sinv A b -> drel l t f g -> sinv (fun s => set_slot (A s) k (f s)) (set_slot b k g).
Proof.
  intros (Hs & Hl & Ho) Hr. split; [|split; [exact Hl | exact Ho]].
  intros j. simpl. unfold upd. destruct (Nat.eqb j k); [exact Hr | apply Hs].
Qed.

Lemma sinv_choice A b (c : bool) (x : R -> tchoice) y :
  sinv A b ->
  sinv (fun s => if c then push_choice (A s) (x s) else A s) (if c then push_choice b y else b).
Proof. destruct c; auto. Qed.

Lemma step_sound o A b :
  sinv A b -> op_ok o (m_slots (A t)) ->
  sinv (fun s => step r_sem (inp s) (A s) o) (step gs gin b o).
Proof.
  intros Hi Hok. pose proof Hi as (Hs & Hl & Ho). destruct o; simpl in Hok |- *.
  - (* Output *)
    split; [exact Hs|]. split; simpl.
    + intros s. rewrite !length_list_upd. apply Hl.
    + intros j. rewrite nth_list_upd.
      apply (drel_ext l t (fun s => if Nat.eqb j i && Nat.ltb i (length (m_out b))
                                    then m_slots (A s) arg else nth j (m_out (A s)) 0)).
      { intros s. now rewrite nth_list_upd, Hl. }
      destruct (Nat.eqb j i && Nat.ltb i (length (m_out b))); [apply Hs | apply Ho].
  - (* Input *)
    apply (sinv_set A b out (fun s => nth i (inp s) 0)); [exact Hi|]. apply Hinp.
  - (* CopyImm *)
    apply (sinv_set A b out (fun _ => imm)); [exact Hi|]. apply drel_const.
  - (* Un *)
    apply (sinv_set A b out (fun s => r_un u (m_slots (A s) arg))); [exact Hi|].
    destruct (Hs arg) as [Hv Hd].
    exact (grad_un_sound u (fun s => m_slots (A s) arg) t _ l Hok Hd _ Hv eq_refl).
  - (* BinRR *)
    apply (sinv_choice _ _ (bop_has_choice b0) (fun _ => TUnknown)).
    apply (sinv_set A b out (fun s => r_bin b0 (m_slots (A s) lhs) (m_slots (A s) rhs))); [exact Hi|].
    destruct (Hs lhs) as [Hv Hd]. destruct (Hs rhs) as [Hw He].
    exact (grad_bin_sound b0 (fun s => m_slots (A s) lhs) (fun s => m_slots (A s) rhs) t _ _ l
             Hok Hd He _ _ Hv eq_refl Hw eq_refl).
  - (* BinRI *)
    apply (sinv_choice _ _ (bop_has_choice b0) (fun _ => TUnknown)).
    apply (sinv_set A b out (fun s => r_bin b0 (m_slots (A s) arg) imm)); [exact Hi|].
    destruct (Hs arg) as [Hv Hd].
    exact (grad_ri_sound b0 (fun s => m_slots (A s) arg) imm t _ l Hok Hd _ Hv eq_refl).
  - (* BinIR *)
    apply (sinv_set A b out (fun s => r_bin b0 imm (m_slots (A s) arg))); [exact Hi|].
    destruct (Hs arg) as [Hv Hd].
    exact (grad_ir_sound b0 imm (fun s => m_slots (A s) arg) t _ l Hok Hd _ Hv eq_refl).
  - (* Load *) apply (sinv_set A b reg (fun s => m_slots (A s) mem)); [exact Hi | apply Hs].
  - (* Store *) apply (sinv_set A b mem (fun s => m_slots (A s) reg)); [exact Hi | apply Hs].
Qed.

(* guard on OPS (not on values): the side conditions are checked on the point run at [t] *)
Lemma run_sound ops : forall A b,
  sinv A b -> ops_ok (inp t) ops (A t) ->
  sinv (fun s => run_fwd r_sem (inp s) ops (A s)) (run_fwd gs gin ops b).
Proof.
  induction ops as [|o ops IH]; intros A b Hi Hok; unfold run_fwd in *; simpl.
  - exact Hi.
  - destruct Hok as [H1 H2]. apply (IH (fun s => step r_sem (inp s) (A s) o)).
    + now apply step_sound.
    + exact H2.
Qed.

Lemma sinv_fresh n :
  sinv (fun _ => init_state (fresh_env r_sem) (fresh_out r_sem n))
       (init_state (fresh_env gs) (fresh_out gs n)).
Proof.
  split; [|split]; simpl.
  - intros k. apply (drel_const l t 0).
  - intros _. unfold fresh_out. now rewrite !repeat_length.
  - intros i. unfold fresh_out; simpl.
    apply (drel_ext l t (fun _ => 0)).
    + intros _. symmetry. apply nth_repeat_dflt.
    + rewrite nth_repeat_dflt. apply (drel_const l t 0).
Qed.

(* chain rule through any tape, along an arbitrary differentiable input curve *)
Theorem grad_tape_sound_curve tape nout :
  tape_ok tape nout (inp t) ->
  forall k,
    drel l t (fun s => nth k (eval_outputs r_sem tape nout (inp s)) 0)
             (nth k (eval_outputs gs tape nout gin) (gfrom r_fl 0)).
Proof.
  intros Hok k. unfold tape_ok in Hok.
  pose proof (run_sound (rev tape) _ _ (sinv_fresh nout) Hok) as (_ & _ & Ho).
  exact (Ho k).
Qed.

End TapeSound.

(* ---- the line through the input point [map gv gin] in the direction given by lane [l]
   of the seeds ---- *)
Definition pt_inputs (l : lane) (gin : list G) (s : R) : list R :=
  map (fun g => gv g + s * gl l g) gin.

Lemma pt_inputs_0 l gin : pt_inputs l gin 0 = map gv gin.
Proof. unfold pt_inputs. apply map_ext. intros g. ring. Qed.

Lemma drel_input l gin i :
  drel l 0 (fun s => nth i (pt_inputs l gin s) 0) (nth i gin (gfrom r_fl 0)).
Proof.
  unfold pt_inputs. revert i. induction gin as [|g gin' IH]; intros [|i]; simpl;
    try apply (drel_const l 0 0).
  - split; [ring|]. auto_derive; [exact I | ring].
  - apply IH.
Qed.

(* MAIN THEOREM (C05).  For every tape, every input point and every derivative seeds
   (the inputs [gin] of the gradient evaluator: value lane = the point p, lanes x/y/z =
   the seed directions), if every operation of the point evaluation at p satisfies its
   differentiability side condition, then for every output [k]:
   - the value lane is the point evaluator's value at p, and
   - lane [l] (any of x, y, z) is the derivative at s = 0 of
       s |-> point_eval (p + s * seed_l). *)
Theorem grad_tape_sound l gin tape nout :
  tape_ok tape nout (map gv gin) ->
  forall k,
    let g := nth k (eval_outputs gs tape nout gin) (gfrom r_fl 0) in
    gv g = nth k (eval_outputs r_sem tape nout (map gv gin)) 0 /\
    is_derive (fun s => nth k (eval_outputs r_sem tape nout (pt_inputs l gin s)) 0) 0 (gl l g).
Proof.
  intros Hok k. rewrite <- (pt_inputs_0 l gin) in Hok.
  destruct (grad_tape_sound_curve l 0 (pt_inputs l gin) gin (drel_input l gin) tape nout Hok k)
    as [Hv Hd].
  split; [|exact Hd]. rewrite <- (pt_inputs_0 l gin). exact Hv.
Qed.

(* ---- the usual seeding: inputs x, y, z with seeds (1,0,0), (0,1,0), (0,0,1): the three
   lanes are the three partial derivatives ---- *)
Lemma is_derive_shift (f : R -> R) (x d : R) : is_derive (fun s => f (x + s)) 0 d -> is_derive f x d.
Proof.
  intros H. apply (is_derive_ext (fun u => (fun s => f (x + s)) (u - x))).
  - intros u. simpl. f_equal. ring.
  - apply (der_comp (fun s => f (x + s)) (fun u => u - x) x 1 d d).
    + replace (x - x) with 0 by ring. exact H.
    + auto_derive; [exact I | ring].
    + symmetry; apply Rmult_1_l.
Qed.

Definition seed_xyz (x y z : R) : list G :=
  [ {| gv := x; gx := 1; gy := 0; gz := 0 |};
    {| gv := y; gx := 0; gy := 1; gz := 0 |};
    {| gv := z; gx := 0; gy := 0; gz := 1 |} ].

Theorem grad_tape_partials tape nout x y z :
  tape_ok tape nout [x; y; z] ->
  forall k,
    let F := fun x y z => nth k (eval_outputs r_sem tape nout [x; y; z]) 0 in
    let g := nth k (eval_outputs gs tape nout (seed_xyz x y z)) (gfrom r_fl 0) in
    gv g = F x y z /\
    is_derive (fun x' => F x' y z) x (gx g) /\
    is_derive (fun y' => F x y' z) y (gy g) /\
    is_derive (fun z' => F x y z') z (gz g).
Proof.
  intros Hok k F g.
  pose proof (grad_tape_sound LX (seed_xyz x y z) tape nout Hok k) as [Hv Hx].
  pose proof (grad_tape_sound LY (seed_xyz x y z) tape nout Hok k) as [_ Hy].
  pose proof (grad_tape_sound LZ (seed_xyz x y z) tape nout Hok k) as [_ Hz].
  split; [exact Hv|]. split; [|split]; apply is_derive_shift.
  - revert Hx. apply is_derive_ext. intros s. unfold F, pt_inputs; simpl.
    do 2 f_equal. f_equal; [ring|]. f_equal; [ring|]. f_equal; ring.
  - revert Hy. apply is_derive_ext. intros s. unfold F, pt_inputs; simpl.
    do 2 f_equal. f_equal; [ring|]. f_equal; [ring|]. f_equal; ring.
  - revert Hz. apply is_derive_ext. intros s. unfold F, pt_inputs; simpl.
    do 2 f_equal. f_equal; [ring|]. f_equal; [ring|]. f_equal; ring.
Qed.

(* ================= the same, phrased with Related.tape_related ================= *)
(* The pointwise lifting of the point semantics to curves; [Related.tape_related] (guard on
   values, here trivial) shows that running a tape on curves is running it pointwise.  The
   derivative statement itself needs a guard on OPERATIONS (the side conditions), which is
   why [run_sound] above is its own induction, in the style of Related.v. *)
From FV Require Import Related.

Definition curve_sem : Sem (R -> R) R :=
  {| s_dflt := fun _ => fl_nan _ r_fl;
     s_imm := fun c _ => c;
     s_un := fun u f s => r_un u (f s);
     s_rr := fun b f g s => r_bin b (f s) (g s);
     s_ri := fun b f c s => r_bin b (f s) c;
     s_ir := fun b c f s => r_bin b c (f s);
     s_ch_rr := fun _ _ _ => TUnknown;
     s_ch_ri := fun _ _ _ => TUnknown |}.

Definition at_pt (s : R) (f : R -> R) (v : R) : Prop := f s = v.

Lemma curve_preserved s : preserved curve_sem r_sem (at_pt s) (fun _ => True).
Proof. unfold at_pt. split; simpl; intros; subst; reflexivity. Qed.

Lemma all_good_True {VA Im} (semA : Sem VA Im) inputs ops : forall a,
  all_good semA (fun _ => True) inputs ops a.
Proof. induction ops as [|o ops IH]; intros a; simpl; auto. split; [destruct (op_out o); exact I | apply IH]. Qed.

Lemma Forall2_nth {A B} (P : A -> B -> Prop) la lb da db :
  Forall2 P la lb -> P da db -> forall k, P (nth k la da) (nth k lb db).
Proof. intros H Hd. induction H; intros [|k]; simpl; auto. Qed.

Theorem curve_eval_pointwise tape nout (cs : list (R -> R)) s :
  reads_written (rev tape) [] ->
  forall k, nth k (eval_outputs curve_sem tape nout cs) (fun _ => 0) s
            = nth k (eval_outputs r_sem tape nout (map (fun c => c s) cs)) 0.
Proof.
  intros Hr k. unfold eval_outputs.
  apply (Forall2_nth (at_pt s)); [|reflexivity].
  apply (tape_related curve_sem r_sem (at_pt s) (fun _ => True) (curve_preserved s)).
  - induction cs; simpl; constructor; [reflexivity | assumption].
  - reflexivity.
  - unfold fresh_out. induction nout; simpl; constructor; [reflexivity | assumption].
  - exact Hr.
  - apply all_good_True.
Qed.

(* rel f g := gv g = f t /\ is_derive f t (lane l of g), between the curve evaluator and the
   gradient evaluator, for arbitrary differentiable input curves *)
Theorem grad_curve_sound l t (cs : list (R -> R)) (gin : list G) tape nout :
  Forall2 (drel l t) cs gin ->
  reads_written (rev tape) [] ->
  tape_ok tape nout (map (fun c => c t) cs) ->
  forall k, drel l t (nth k (eval_outputs curve_sem tape nout cs) (fun _ => 0))
                     (nth k (eval_outputs gs tape nout gin) (gfrom r_fl 0)).
Proof.
  intros Hin Hr Hok k.
  apply (drel_ext l t (fun s => nth k (eval_outputs r_sem tape nout (map (fun c => c s) cs)) 0)).
  - intros s. symmetry. now apply curve_eval_pointwise.
  - apply (grad_tape_sound_curve l t (fun s => map (fun c => c s) cs) gin); [|exact Hok].
    clear -Hin. induction Hin as [|c g cs gin Hcg _ IH]; intros [|i]; simpl;
      try apply (drel_const l t 0); auto.
Qed.

(* ================= Transformable for Grad ================= *)
Notation gtr := (gtransform r_fl).

Lemma drel_add l t f f' g g' :
  drel l t f g -> drel l t f' g' -> drel l t (fun s => f s + f' s) (gadd r_fl g g').
Proof.
  intros [Hv Hd] [Hw He].
  exact (grad_bin_sound BAdd f f' t _ _ l I Hd He g g' Hv eq_refl Hw eq_refl).
Qed.
Lemma drel_mulf l t f g c : drel l t f g -> drel l t (fun s => f s * c) (gmul_f r_fl g c).
Proof.
  intros [Hv Hd]. exact (grad_ri_sound BMul f c t _ l I Hd g Hv eq_refl).
Qed.
Lemma drel_div l t f f' g g' :
  drel l t f g -> drel l t f' g' -> f' t <> 0 -> drel l t (fun s => f s / f' s) (gdiv r_fl g g').
Proof.
  intros [Hv Hd] [Hw He] H0.
  exact (grad_bin_sound BDiv f f' t _ _ l H0 Hd He g g' Hv eq_refl Hw eq_refl).
Qed.

(* row i of the 4x4 matrix (row-major list) applied to (x, y, z, 1) *)
Definition row_pt (m : list R) (i : nat) (x y z : R) : R :=
  nth (4 * i + 0) m 0 * x + nth (4 * i + 1) m 0 * y + nth (4 * i + 2) m 0 * z + nth (4 * i + 3) m 0.
Definition grow (X Y Z : G) (m : list R) (i : nat) : G :=
  gadd r_fl (gadd r_fl (gadd r_fl (gmul_f r_fl X (nth (4 * i + 0) m 0)) (gmul_f r_fl Y (nth (4 * i + 1) m 0)))
                      (gmul_f r_fl Z (nth (4 * i + 2) m 0))) (gfrom r_fl (nth (4 * i + 3) m 0)).

Lemma gtransform_rows X Y Z m :
  gtr X Y Z m = (gdiv r_fl (grow X Y Z m 0) (grow X Y Z m 3),
                 gdiv r_fl (grow X Y Z m 1) (grow X Y Z m 3),
                 gdiv r_fl (grow X Y Z m 2) (grow X Y Z m 3)).
Proof. reflexivity. Qed.

Lemma drel_row l t (cx cy cz : R -> R) X Y Z m i :
  drel l t cx X -> drel l t cy Y -> drel l t cz Z ->
  drel l t (fun s => row_pt m i (cx s) (cy s) (cz s)) (grow X Y Z m i).
Proof.
  intros Hx Hy Hz. unfold grow.
  apply (drel_ext l t (fun s => cx s * nth (4 * i + 0) m 0 + cy s * nth (4 * i + 1) m 0
                                + cz s * nth (4 * i + 2) m 0 + nth (4 * i + 3) m 0)).
  - intros s. unfold row_pt. ring.
  - repeat apply drel_add; try apply drel_mulf; auto. apply drel_const.
Qed.

(* general (projective) case: the transformed grads are value and derivative of the
   transformed curve, as long as the homogeneous coordinate does not vanish *)
Theorem gtransform_sound l t (cx cy cz : R -> R) X Y Z m :
  drel l t cx X -> drel l t cy Y -> drel l t cz Z ->
  row_pt m 3 (cx t) (cy t) (cz t) <> 0 ->
  let w := fun s => row_pt m 3 (cx s) (cy s) (cz s) in
  let '(X', Y', Z') := gtr X Y Z m in
  drel l t (fun s => row_pt m 0 (cx s) (cy s) (cz s) / w s) X' /\
  drel l t (fun s => row_pt m 1 (cx s) (cy s) (cz s) / w s) Y' /\
  drel l t (fun s => row_pt m 2 (cx s) (cy s) (cz s) / w s) Z'.
Proof.
  intros Hx Hy Hz H0 w. rewrite gtransform_rows.
  split; [|split]; (apply (drel_div l t _ w); [apply drel_row; assumption | apply drel_row; assumption | exact H0]).
Qed.

(* affine case (last row 0 0 0 1): values are the affine image, and each derivative lane
   is the Jacobian (the 3x3 linear part) applied to that lane of the seeds *)
Theorem gtransform_affine l X Y Z m :
  nth 12 m 0 = 0 -> nth 13 m 0 = 0 -> nth 14 m 0 = 0 -> nth 15 m 0 = 1 ->
  let '(X', Y', Z') := gtr X Y Z m in
  let lin i := nth (4 * i + 0) m 0 * gl l X + nth (4 * i + 1) m 0 * gl l Y + nth (4 * i + 2) m 0 * gl l Z in
  (gv X' = row_pt m 0 (gv X) (gv Y) (gv Z) /\ gl l X' = lin 0%nat) /\
  (gv Y' = row_pt m 1 (gv X) (gv Y) (gv Z) /\ gl l Y' = lin 1%nat) /\
  (gv Z' = row_pt m 2 (gv X) (gv Y) (gv Z) /\ gl l Z' = lin 2%nat).
Proof.
  intros H12 H13 H14 H15. rewrite gtransform_rows. unfold grow, row_pt.
  change (4 * 3 + 0)%nat with 12%nat. change (4 * 3 + 1)%nat with 13%nat.
  change (4 * 3 + 2)%nat with 14%nat. change (4 * 3 + 3)%nat with 15%nat.
  rewrite H12, H13, H14, H15.
  destruct X, Y, Z, l; simpl; unfold Interval.powi2; simpl; repeat split; field.
Qed.

(* ---- lane x / y / z instances are literally gx / gy / gz ---- *)
Lemma gl_x (g : G) : gl LX g = gx g. Proof. reflexivity. Qed.
Lemma gl_y (g : G) : gl LY g = gy g. Proof. reflexivity. Qed.
Lemma gl_z (g : G) : gl LZ g = gz g. Proof. reflexivity. Qed.

(* ---- non-vacuity: x / y (tape stored root-first), differentiable wherever y <> 0 ---- *)
Example div_tape : list (op R) :=
  [OOutput 2 0; OBinRR BDiv 2 0 1; OInput 1 1; OInput 0 0].
Example div_tape_ok x y : y <> 0 -> tape_ok div_tape 1 [x; y].
Proof. intros H. unfold tape_ok; simpl. repeat split. exact H. Qed.
Example div_tape_grad x y : y <> 0 ->
  is_derive (fun x' => x' / y) x (/ y) /\ is_derive (fun y' => x / y') y (- x / (y * y)).
Proof.
  intros H.
  pose proof (grad_tape_sound LX [ {| gv := x; gx := 1; gy := 0; gz := 0 |};
                                   {| gv := y; gx := 0; gy := 1; gz := 0 |} ]
                div_tape 1 (div_tape_ok x y H) 0%nat) as [_ Hx].
  pose proof (grad_tape_sound LY [ {| gv := x; gx := 1; gy := 0; gz := 0 |};
                                   {| gv := y; gx := 0; gy := 1; gz := 0 |} ]
                div_tape 1 (div_tape_ok x y H) 0%nat) as [_ Hy].
  cbv [eval_outputs eval_tape run_fwd rev app fold_left step div_tape init_state fresh_env fresh_out
       repeat set_slot push_choice bop_has_choice m_slots m_out m_trace list_upd upd Nat.eqb nth
       pt_inputs map gl gv gx gy gz grad_sem s_rr s_dflt r_sem g_bin gdiv r_bin] in Hx, Hy.
  simpl in Hx, Hy. unfold Interval.powi2 in Hx, Hy. simpl in Hx, Hy.
  split; apply is_derive_shift.
  - apply (is_derive_eq (fun s => (x + s) / y) 0 ((y * 1 - x * 0) / (y * y))); [|now field].
    revert Hx. apply is_derive_ext. intros s. f_equal; ring.
  - apply (is_derive_eq (fun s => x / (y + s)) 0 ((y * 0 - x * 1) / (y * y))); [|now field].
    revert Hy. apply is_derive_ext. intros s. f_equal; ring.
Qed.

(* ---- the side conditions are needed: at a kink the model returns ONE one-sided
   derivative (that of the branch it takes), which is not the derivative ---- *)
Lemma even_derive_0 (f : R -> R) (l : R) : (forall s, f (- s) = f s) -> is_derive f 0 l -> l = 0.
Proof.
  intros Hev H.
  assert (H' : is_derive (fun s => f (- s)) 0 (-1 * l)).
  { apply (der_comp f (fun s => - s) 0 (-1) l); [| auto_derive; [exact I | ring] | reflexivity].
    replace (- 0) with 0 by ring. exact H. }
  apply (is_derive_ext _ f 0 _ Hev) in H'.
  pose proof (is_derive_unique _ _ _ H) as E1. pose proof (is_derive_unique _ _ _ H') as E2.
  rewrite E1 in E2. lra.
Qed.

(* Abs at 0 along a(s) = s: the model keeps the seed (lane = 1) *)
Lemma abs_at_zero :
  gx (gun UAbs (mk1 0 1)) = 1 /\ ~ is_derive (fun s => r_un UAbs s) 0 1.
Proof.
  split.
  - simpl. unfold gabs; simpl. rewrite r_ltb_false by lra. reflexivity.
  - intros H. apply even_derive_0 in H; [lra|]. intros s; simpl. apply Rabs_Ropp.
Qed.

(* Min on a tie along a(s) = s, c(s) = -s: the model takes the right operand (lane = -1) *)
Lemma min_at_tie :
  gx (gbin BMin (mk1 0 1) (mk1 0 (-1))) = -1 /\ ~ is_derive (fun s => r_bin BMin s (- s)) 0 (-1).
Proof.
  split.
  - simpl. unfold gmin; simpl. rewrite r_ltb_false by lra. reflexivity.
  - intros H. apply even_derive_0 in H; [lra|]. intros s; simpl.
    rewrite Ropp_involutive. apply Rmin_comm.
Qed.

Print Assumptions grad_un_sound.
Print Assumptions grad_bin_sound.
Print Assumptions grad_ri_sound.
Print Assumptions grad_ir_sound.
Print Assumptions grad_tape_sound.
Print Assumptions grad_tape_partials.
Print Assumptions grad_curve_sound.
Print Assumptions gtransform_sound.
Print Assumptions gtransform_affine.
