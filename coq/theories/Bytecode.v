(* Bytecode.v — fidget-bytecode: the encoder (Bytecode::new with RegTape::repack_map)
   and an independent decoder written from the module documentation only
   (two u32 words per op; byte 0 opcode, byte 1 output register, bytes 2/3 inputs;
   0xFF = "use the second word as immediate"; Mem with the 0xFF flag telling load from
   store; first words FFFFFFFF 00000000, last words FFFFFFFF FFFFFFFF). *)
From Coq Require Import List Bool Arith ZArith Lia.
From FV Require Import Ops Tape Alloc.
Import ListNotations.
Open Scope Z_scope.

(* BytecodeOp tags, in enum order (compared with the regenerated table in GenCheck) *)
Definition bc_output : Z := 0.  Definition bc_input : Z := 1.  Definition bc_copy : Z := 2.
Definition bc_mem : Z := 33.
Definition bc_un (u : uop) : Z :=
  match u with
  | UCopy => 2 | UNeg => 3 | UAbs => 4 | URecip => 5 | USqrt => 6 | USquare => 7 | UFloor => 8
  | UCeil => 9 | URound => 10 | UNot => 11 | URand => 12 | USin => 13 | UCos => 14 | UTan => 15
  | UAsin => 16 | UAcos => 17 | UAtan => 18 | UExp => 19 | ULn => 20
  end.
Definition bc_bin (b : bop) : Z :=
  match b with
  | BAdd => 21 | BSub => 22 | BMul => 23 | BDiv => 24 | BAtan => 25 | BCompare => 26 | BMix => 27
  | BMod => 28 | BMin => 29 | BMax => 30 | BAnd => 31 | BOr => 32
  end.

Section Bytecode.
Context {I : Type}.
Variable imm_bits : I -> Z.        (* f32::to_bits *)
Variable imm_of_bits : Z -> I.
Notation op := (Tape.op I).

(* ---- RegTape::repack_map ------------------------------------------------------ *)
(* RegOp::visit_regs: registers of an op, with multiplicity *)
Definition op_regs (o : op) : list nat :=
  match o with
  | OOutput r _ | OInput r _ | OCopyImm r _ | OLoad r _ | OStore r _ => [r]
  | OUn _ o a | OBinRI _ o a _ | OBinIR _ o a _ => [o; a]
  | OBinRR _ o l r => [o; l; r]
  end.

Fixpoint bump_count (l : list (nat * nat)) (r : nat) : list (nat * nat) :=
  match l with
  | [] => [(r, 1%nat)]
  | (k, c) :: rest => if Nat.eqb k r then (k, S c) :: rest else (k, c) :: bump_count rest r
  end.
Definition reg_counts (tape : list op) : list (nat * nat) :=
  fold_left bump_count (flat_map op_regs tape) [].

(* sort by (Reverse(count), reg): higher count first, then lower register *)
Definition before (a b : nat * nat) : bool :=
  Nat.ltb (snd b) (snd a) || (Nat.eqb (snd a) (snd b) && Nat.ltb (fst a) (fst b)).
Fixpoint insert_sorted (x : nat * nat) (l : list (nat * nat)) : list (nat * nat) :=
  match l with
  | [] => [x]
  | y :: rest => if before x y then x :: l else y :: insert_sorted x rest
  end.
Definition sort_counts (l : list (nat * nat)) : list (nat * nat) := fold_right insert_sorted [] l.

(* register -> new index *)
Definition repack_map (tape : list op) : list (nat * nat) :=
  let sorted := sort_counts (reg_counts tape) in
  combine (map fst sorted) (seq 0 (length sorted)).
Fixpoint lookup (m : list (nat * nat)) (r : nat) : option nat :=
  match m with [] => None | (k, v) :: rest => if Nat.eqb k r then Some v else lookup rest r end.

(* ---- Bytecode::new -------------------------------------------------------------- *)
Definition pack (b0 b1 b2 b3 : Z) : Z := b0 + 256 * b1 + 65536 * b2 + 16777216 * b3.
Definition no_imm : Z := 4278190080.   (* 0xFF000000 *)
Definition marker : Z := 4294967295.

Record bstate := { b_words : list Z (* reversed *); b_regs : nat; b_mems : Z }.

Definition enc_reg (m : list (nat * nat)) (r : nat) : result nat :=
  match lookup m r with
  | None => Err 60                       (* map[&r] panics *)
  | Some v => if Nat.eqb v 255 then Err 61 (* ReservedRegister: an error value *) else Ok v
  end.

Definition encode_op (n : nat) (m : list (nat * nat)) (o : op) (st : bstate) : result bstate :=
  let R r k := match enc_reg m r with Ok v => k v | Err c => Err c end in
  let emit (b0 b1 b2 b3 imm : Z) (regs : list nat) (mems : Z) :=
    Ok {| b_words := imm :: pack b0 b1 b2 b3 :: b_words st;
          b_regs := fold_left (fun acc v => Nat.max acc (S v)) regs (b_regs st);
          b_mems := Z.max (b_mems st) mems |} in
  let z := Z.of_nat in
  match o with
  | OInput r slot => R r (fun v => emit bc_input (z v) 255 255 (z slot) [v] 0)
  | OOutput r slot => R r (fun v => emit bc_output (z v) 255 255 (z slot) [v] 0)
  | OLoad r slot =>
      if Nat.ltb slot n then Err 62 (* u32 underflow of slot + 1 - mem_offset *) else
      R r (fun v => emit bc_mem (z v) 255 255 (z slot - z n) [v] (z slot + 1 - z n))
  | OStore r slot =>
      if Nat.ltb slot n then Err 62 else
      R r (fun v => emit bc_mem 255 (z v) 255 (z slot - z n) [v] (z slot + 1 - z n))
  | OCopyImm out c => R out (fun v => emit bc_copy (z v) 255 255 (imm_bits c) [v] 0)
  | OUn u out a => R out (fun vo => R a (fun va => emit (bc_un u) (z vo) (z va) 255 no_imm [vo; va] 0))
  | OBinRI b out a c =>
      R out (fun vo => R a (fun va => emit (bc_bin b) (z vo) (z va) 255 (imm_bits c) [vo; va] 0))
  | OBinIR b out a c =>
      R out (fun vo => R a (fun va => emit (bc_bin b) (z vo) 255 (z va) (imm_bits c) [vo; va] 0))
  | OBinRR b out l r =>
      R out (fun vo => R l (fun vl => R r (fun vr => emit (bc_bin b) (z vo) (z vl) (z vr) no_imm [vo; vl; vr] 0)))
  end.

Fixpoint encode_ops (n : nat) (m : list (nat * nat)) (ops : list op) (st : bstate) : result bstate :=
  match ops with
  | [] => Ok st
  | o :: rest => match encode_op n m o st with Ok st' => encode_ops n m rest st' | Err c => Err c end
  end.

(* [tape] root-first as stored; returns (words, reg_count, mem_count) *)
Definition bytecode_new (n : nat) (tape : list op) : result (list Z * nat * Z) :=
  let m := repack_map tape in
  match encode_ops n m (rev tape) {| b_words := [0; marker]; b_regs := 0; b_mems := 0 |} with
  | Err c => Err c
  | Ok st => Ok (rev (marker :: marker :: b_words st), b_regs st, b_mems st)
  end.

(* ---- the documentation-only decoder --------------------------------------------- *)
Definition byte (w : Z) (k : Z) : Z := (w / (256 ^ k)) mod 256.
Definition mem_base : nat := 256.    (* memory cell i of the decoded machine is slot 256 + i *)

Definition un_of_code (c : Z) : option uop :=
  find (fun u => Z.eqb (bc_un u) c) all_uops.
Definition bin_of_code (c : Z) : option bop :=
  find (fun b => Z.eqb (bc_bin b) c) all_bops.

Definition decode_op (w imm : Z) : option op :=
  let opc := byte w 0 in let b1 := byte w 1 in let b2 := byte w 2 in let b3 := byte w 3 in
  let n := Z.to_nat in
  if Z.eqb opc bc_output then Some (OOutput (n b1) (n imm))
  else if Z.eqb opc bc_input then Some (OInput (n b1) (n imm))
  else if Z.eqb opc bc_mem then
    if Z.eqb b2 255 then (if Z.eqb b1 255 then None else Some (OLoad (n b1) (mem_base + n imm)))
    else if Z.eqb b1 255 then Some (OStore (n b2) (mem_base + n imm))
    else None
  else if Z.eqb opc bc_copy then
    if Z.eqb b2 255 then Some (OCopyImm (n b1) (imm_of_bits imm)) else Some (OUn UCopy (n b1) (n b2))
  else
    match un_of_code opc with
    | Some u => if Z.eqb b2 255 then None else Some (OUn u (n b1) (n b2))
    | None =>
        match bin_of_code opc with
        | Some b =>
            if Z.eqb b2 255 then (if Z.eqb b3 255 then None else Some (OBinIR b (n b1) (n b3) (imm_of_bits imm)))
            else if Z.eqb b3 255 then Some (OBinRI b (n b1) (n b2) (imm_of_bits imm))
            else Some (OBinRR b (n b1) (n b2) (n b3))
        | None => None
        end
    end.

(* body words (between the markers) -> ops in evaluation order *)
Fixpoint decode_body (ws : list Z) (fuel : nat) {struct fuel} : option (list op) :=
  match fuel with
  | O => None
  | S f =>
      match ws with
      | [] => None
      | [_] => None
      | w :: imm :: rest =>
          if Z.eqb w marker then (if Z.eqb imm marker then (match rest with [] => Some [] | _ => None end) else None)
          else match decode_op w imm, decode_body rest f with
               | Some o, Some os => Some (o :: os)
               | _, _ => None
               end
      end
  end.

Definition decode (ws : list Z) : option (list op) :=
  match ws with
  | w0 :: w1 :: body => if Z.eqb w0 marker && Z.eqb w1 0 then decode_body body (S (length body)) else None
  | _ => None
  end.

(* advertised counts bound every index; register 255 is never used *)
Definition op_in_bounds (regs mems : nat) (o : op) : bool :=
  let r x := Nat.ltb x regs && Nat.ltb x 255 in
  let mm x := Nat.leb mem_base x && Nat.ltb (x - mem_base) mems in
  match o with
  | OOutput a _ | OInput a _ | OCopyImm a _ => r a
  | OUn _ o a | OBinRI _ o a _ | OBinIR _ o a _ => r o && r a
  | OBinRR _ o l rr => r o && r l && r rr
  | OLoad x m | OStore x m => r x && mm m
  end.

End Bytecode.

(* Renaming the slots of a register tape the way the decoder sees them: registers
   through the repack map, memory slot s -> 256 + (s - N). *)
