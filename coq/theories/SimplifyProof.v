(* SimplifyProof.v — correctness of VmData::simplify (model: Simplify.v).

   simplify_ssa_correct : on every input where the trace is valid, the simplified SSA
                          tape writes the parent's outputs; it is a well-formed SSA
                          tape; its choice/output counts are right.
   simplify_reg_correct : the register tape produced at the end is observationally
                          equal to the simplified SSA tape and within bounds.
   simplify_total       : with the new closing assertion, a budget in 3..255 and a
                          complete trace, simplify never fails.
   simplify_chain       : iterated simplification preserves the outputs. *)
From Coq Require Import List Bool Arith Lia Permutation.
From FV Require Import Ops Tape Lru Alloc SsaWf Simplify LruProof
     SimplifyValidateProof TraceFacts AllocProof SimplifyFacts SimplifyInv.
Import ListNotations.

(* ---------- bound monotonicity of SsaWf ---------- *)
Section WfMono.
Context {I : Type}.
Notation op := (Tape.op I).

Lemma wf_step_bound_mono b b' (o : op) st st' :
  b <= b' -> wf_step b o st = Some st' -> wf_step b' o st = Some st'.
Proof.
  intros Hle H. destruct st as [live defd]. destruct st' as [live1 defd1].
  assert (Hssa : is_ssa_op o = true).
  { unfold wf_step in H. destruct (is_ssa_op o); [reflexivity|discriminate]. }
  destruct (op_out o) as [index|] eqn:Ho.
  - destruct (wf_step_def_inv _ _ _ _ _ _ _ H Ho) as (_ & H1 & H2 & H3 & H4 & -> & ->).
    apply wf_step_def_intro; auto; [lia|].
    intros a Ha. destruct (H4 a Ha) as (P & Q & R). repeat split; auto. lia.
  - destruct (wf_step_out_inv _ _ _ _ _ _ H Ho) as (H4 & -> & ->).
    apply wf_step_out_intro; auto.
    intros a Ha. destruct (H4 a Ha) as (Q & R). split; auto. lia.
Qed.

Lemma wf_run_bound_mono b b' (t : list op) : forall st st',
  b <= b' -> wf_run b t st = Some st' -> wf_run b' t st = Some st'.
Proof.
  induction t as [|o t IH]; intros st st' Hle H; simpl in *; [exact H|].
  destruct (wf_step b o st) as [st1|] eqn:E; [|discriminate].
  rewrite (wf_step_bound_mono _ _ _ _ _ Hle E). eapply IH; eassumption.
Qed.
End WfMono.

Lemma rev_short {A} (l : list A) : length l <= 1 -> rev l = l.
Proof. destruct l as [|a [|b l]]; simpl; auto; lia. Qed.

(* ---------- the walk ---------- *)
Section Main.
Context {V I : Type}.
Variable sem : Sem V I.
Variable inputs : list V.
Hypothesis copy_id : forall v, s_un sem UCopy v = v.
Variables N B : nat.
Notation op := (Tape.op I).
Notation mst := (mstate (V:=V)).
Notation INV := (@INV I N).
Notation AG := (@AG V).

Lemma simplify_op_mono (st : @sst I) (o : op) st1 :
  simplify_op st o = Ok st1 -> ws_mono (s_ws st) (s_ws st1).
Proof.
  intros H. destruct (is_ssa_op o) eqn:Hssa.
  - pose proof (simplify_op_class sem inputs copy_id st o st1 Hssa H) as C.
    destruct C as [reg i nr -> Hg _ _ _ _
                  |index cs _ _ _ _ _ _ Hw _ _
                  |index cs ni act _ _ _ _ _ Hb Hact Hres].
    + eapply goi_mono; exact Hg.
    + rewrite Hw. apply ws_mono_refl.
    + destruct act as [o' w1 cc|w1]; simpl in Hact.
      * destruct Hres as (-> & _). destruct Hact as (pargs & cargs & _ & Hg & _).
        apply (goi_list_spec _ _ _ _ Hg).
      * destruct Hres as (-> & _). destruct Hact as (x & _ & Hxn & Hset & _).
        destruct (set_active_spec _ _ _ _ Hset) as (_ & Hlen & Hcnt & _ & Hother & _).
        split; [exact Hlen|]. split; [lia|]. intros j b Hj. rewrite Hother; [exact Hj|].
        intros ->. unfold bindf in Hj. rewrite Hxn in Hj. discriminate.
  - destruct o; try discriminate; simpl in H.
    + destruct (active (s_ws st) reg) as [[ni|]|]; try discriminate.
      injection H as <-. apply ws_mono_refl.
    + destruct (active (s_ws st) mem) as [[ni|]|]; try discriminate.
      injection H as <-. apply ws_mono_refl.
Qed.

Lemma simplify_ops_mono (ops : list op) : forall st st',
  simplify_ops ops st = Ok st' -> ws_mono (s_ws st) (s_ws st').
Proof.
  induction ops as [|o ops IH]; intros st st' H; simpl in H.
  - injection H as <-. apply ws_mono_refl.
  - destruct (simplify_op st o) as [st1|] eqn:E; [|discriminate].
    eapply ws_mono_trans; [eapply simplify_op_mono; exact E|apply IH, H].
Qed.

Lemma valid_single (o : op) (s : mst) cs :
  length cs = ch_len o -> valid_run sem inputs [o] s cs -> ch_pre sem s o cs.
Proof.
  unfold ch_len, ch_pre. simpl. destruct (op_has_choice o).
  - destruct cs as [|c cs]; [discriminate|]. intros _ [H _]. exact H.
  - destruct cs; [auto|discriminate].
Qed.

Lemma simplify_ops_sim (ops : list op) : forall st st' live defd live' defd' clive cdefd,
  wf_run N ops (live, defd) = Some (live', defd') ->
  simplify_ops ops st = Ok st' ->
  INV st live defd clive cdefd ->
  w_count (s_ws st') <= B ->
  exists new tr clive' cdefd',
    s_out st' = new ++ s_out st /\
    s_choices st = rev tr ++ s_choices st' /\ length tr = count_choices ops /\
    wf_run B (rev new) (clive, cdefd) = Some (clive', cdefd') /\
    INV st' live' defd' clive' cdefd' /\
    s_cc st' = s_cc st + count_choices new /\
    s_oc st' = s_oc st + count_outputs ops /\
    count_outputs new = count_outputs ops /\
    (forall sp sc : mst,
        AG (s_ws st') defd' sp sc -> m_out sp = m_out sc ->
        valid_run sem inputs (rev ops) sp tr ->
        AG (s_ws st) defd (run_fwd sem inputs (rev ops) sp) (run_fwd sem inputs new sc) /\
        m_out (run_fwd sem inputs (rev ops) sp) = m_out (run_fwd sem inputs new sc)).
Proof.
  induction ops as [|o ops IH]; intros st st' live defd live' defd' clive cdefd Hwf Hs Hinv HB.
  - simpl in Hwf, Hs. injection Hwf as <- <-. injection Hs as <-.
    exists [], [], clive, cdefd. unfold count_choices, count_outputs. simpl.
    split; [reflexivity|]. split; [reflexivity|]. split; [reflexivity|]. split; [reflexivity|].
    split; [exact Hinv|]. split; [lia|]. split; [lia|]. split; [reflexivity|].
    intros sp sc Hag Hmo _. split; assumption.
  - cbn [wf_run simplify_ops] in Hwf, Hs.
    destruct (wf_step N o (live, defd)) as [[live1 defd1]|] eqn:Ewf; [|discriminate].
    destruct (simplify_op st o) as [st1|] eqn:Eop; [|discriminate].
    pose proof (simplify_ops_mono _ _ _ Hs) as (_ & Hmono & _).
    destruct (inv_step sem inputs copy_id N B st o st1 live defd live1 defd1 clive cdefd
                Hinv Ewf Eop ltac:(lia))
      as (new_o & cs & clive1 & cdefd1 & Hrev & Hout1 & Hch1 & Hcl & Hwf1 & Hinv1 & Hcc1 & Hoc1 & Hco1 & _ & Hsem1).
    destruct (IH st1 st' live1 defd1 live' defd' clive1 cdefd1 Hwf Hs Hinv1 HB)
      as (new_r & tr_r & clive' & cdefd' & Hout2 & Hch2 & Hlen2 & Hwf2 & Hinv2 & Hcc2 & Hoc2 & Hco2 & Hsem2).
    assert (Hcs : rev cs = cs).
    { apply rev_short. rewrite Hcl. unfold ch_len. destruct (op_has_choice o); lia. }
    exists (new_r ++ new_o), (tr_r ++ cs), clive', cdefd'.
    split; [rewrite Hout2, Hout1, app_assoc; reflexivity|].
    split; [rewrite rev_app_distr, Hcs, Hch1, Hch2, app_assoc; reflexivity|].
    split; [rewrite app_length, Hlen2, Hcl, count_choices_cons; unfold ch_len; lia|].
    split; [rewrite rev_app_distr, Hrev, wf_run_app, Hwf1; exact Hwf2|].
    split; [exact Hinv2|].
    split; [rewrite Hcc2, Hcc1, count_choices_app; lia|].
    assert (Hc1 : count_outputs [o] = match o with OOutput _ _ => 1 | _ => 0 end)
      by (destruct o; reflexivity).
    split; [rewrite Hoc2, Hoc1, (count_outputs_cons o ops), Hc1; lia|].
    split; [rewrite count_outputs_app, Hco2, Hco1, (count_outputs_cons o ops), Hc1; lia|].
    intros sp sc Hag Hmo Hval. simpl in Hval.
    apply valid_run_app in Hval; [|rewrite Hlen2; symmetry; apply count_choices_rev].
    destruct Hval as [Hv1 Hv2].
    destruct (Hsem2 sp sc Hag Hmo Hv1) as [Hag1 Hmo1].
    pose proof (valid_single _ _ _ Hcl Hv2) as Hpre.
    destruct (Hsem1 _ _ Hag1 Hmo1 Hpre) as [Hag0 Hmo0].
    simpl rev. rewrite !run_fwd_app. split; [exact Hag0|exact Hmo0].
Qed.

(* the initial workspace *)
Lemma bindf_init n i : bindf {| w_bind := repeat None n; w_count := 0 |} i = None.
Proof.
  unfold bindf. simpl. destruct (nth_error (repeat None n) i) as [[b|]|] eqn:E; auto.
  apply nth_error_In, repeat_spec in E. discriminate.
Qed.

Definition st_init (n : nat) (chs : list tchoice) : @sst I :=
  {| s_ws := {| w_bind := repeat None n; w_count := 0 |};
     s_choices := chs; s_out := []; s_cc := 0; s_oc := 0 |}.

Lemma INV_init chs : INV (st_init N chs) [] [] [] [].
Proof.
  constructor; simpl.
  - constructor.
    + constructor; simpl.
      * apply repeat_length.
      * intros i b H. rewrite bindf_init in H. discriminate.
      * intros i j b H. rewrite bindf_init in H. discriminate.
      * lia.
    + intros b. split; [intros []|]. intros (i & H & _). rewrite bindf_init in H. discriminate.
    + constructor.
    + reflexivity.
  - intros i b H. rewrite bindf_init in H. discriminate.
  - intros b [].
  - reflexivity.
Qed.

End Main.

(* ---------- everything that follows from a successful walk of the whole parent ---------- *)
Section Whole.
Context {V I : Type}.
Variable sem : Sem V I.
Variable inputs : list V.
Hypothesis copy_id : forall v, s_un sem UCopy v = v.
Notation op := (Tape.op I).

Lemma simplify_walk_facts (parent : list op) (chs : list tchoice) st' :
  ssa_wf parent = true ->
  simplify_ops parent (st_init (length parent) chs) = Ok st' ->
  let child := rev (s_out st') in
  exists tr,
    chs = rev tr ++ s_choices st' /\ length tr = count_choices parent /\
    w_count (s_ws st') <= length parent /\
    w_count (s_ws st') + s_oc st' = length child /\
    wf_walk (w_count (s_ws st')) child ([], []) = true /\
    s_cc st' = count_choices child /\
    s_oc st' = count_outputs parent /\
    count_outputs child = count_outputs parent /\
    (forall (e0 e0' : env (V:=V)) out0,
        valid_at sem inputs parent e0 out0 tr ->
        m_out (eval_tape sem parent inputs e0 out0) = m_out (eval_tape sem child inputs e0' out0)).
Proof.
  intros Hwf Hs child. unfold ssa_wf in Hwf. rewrite wf_walk_run in Hwf.
  destruct (wf_run (length parent) parent ([], [])) as [[[|x live'] defd']|] eqn:Erun; try discriminate.
  destruct (simplify_ops_sim sem inputs copy_id (length parent) (w_count (s_ws st')) parent
              _ _ _ _ _ _ [] [] Erun Hs (INV_init _ _) (le_n _))
    as (new & tr & clive' & cdefd' & Hout & Hch & Hlen & Hwfc & Hinv & Hcc & Hoc & Hco & Hsem).
  simpl in Hout, Hch, Hcc, Hoc. rewrite app_nil_r in Hout.
  destruct Hinv as [[[Wl Wlt Wi Ws] Kl Kn Kc] Iu Icd Io].
  assert (Hcl : clive' = []).
  { destruct clive' as [|b l]; [reflexivity|]. exfalso.
    destruct (proj1 (Kl b) (or_introl eq_refl)) as (i & Hi & Di).
    destruct (Iu _ _ Hi) as [[]|H]. tauto. }
  subst clive'. simpl in Kc.
  unfold child. rewrite Hout.
  exists tr. split; [exact Hch|]. split; [exact Hlen|].
  split; [pose proof (count_some_le (w_bind (s_ws st'))); lia|].
  split; [rewrite rev_length; rewrite Hout in Io; lia|].
  split; [rewrite wf_walk_run, Hwfc; reflexivity|].
  split; [rewrite Hcc, count_choices_rev; reflexivity|].
  split; [exact Hoc|].
  split; [rewrite count_outputs_rev; exact Hco|].
  intros e0 e0' out0 Hval. unfold eval_tape. rewrite rev_involutive.
  apply (Hsem (init_state e0 out0) (init_state e0' out0)).
  - intros i b Hi Di. destruct (Iu _ _ Hi) as [[]|H]. tauto.
  - reflexivity.
  - exact Hval.
Qed.

End Whole.

(* ---------- unfolding a successful [simplify] ---------- *)
Lemma simplify_ok_inv {I} ao m (parent : list (op I)) pc trace z :
  simplify ao m parent pc trace = Ok z ->
  exists st',
    length trace = pc /\
    simplify_ops parent (st_init (length parent) (rev trace)) = Ok st' /\
    simplify_final_ok ao (w_count (s_ws st')) (s_oc st') (length (rev (s_out st'))) = true /\
    z_ssa z = rev (s_out st') /\ z_choices z = s_cc st' /\ z_outputs z = s_oc st' /\
    reg_tape_alloc m (length parent) (rev (s_out st')) = Ok (z_reg z, z_slots z).
Proof.
  unfold simplify, st_init. intros H.
  destruct (Nat.eqb (length trace) pc) eqn:El; [|discriminate]. simpl in H.
  destruct (simplify_ops parent _) as [st'|] eqn:Es; [|discriminate].
  destruct (simplify_final_ok ao _ _ _) eqn:Ef; [|discriminate]. simpl in H.
  destruct (reg_tape_alloc m (length parent) (rev (s_out st'))) as [[rt slots]|] eqn:Ea; [|discriminate].
  injection H as <-. exists st'. simpl. apply Nat.eqb_eq in El. repeat split; auto.
Qed.

Lemma wf_walk_bound_mono {I} b b' (t : list (op I)) st :
  b <= b' -> wf_walk b t st = true -> wf_walk b' t st = true.
Proof.
  intros Hle. rewrite !wf_walk_run.
  destruct (wf_run b t st) as [[live defd]|] eqn:E; [|discriminate].
  rewrite (wf_run_bound_mono _ _ _ _ _ Hle E). auto.
Qed.

Lemma trace_consumed (trace tr rest : list tchoice) :
  rev trace = rev tr ++ rest -> length tr = length trace -> tr = trace /\ rest = [].
Proof.
  intros H Hl. assert (Hr : rest = []).
  { apply (f_equal (@length _)) in H. rewrite app_length, !rev_length in H.
    destruct rest; [reflexivity|simpl in H; lia]. }
  subst rest. rewrite app_nil_r in H. split; [|reflexivity].
  apply (f_equal (@rev _)) in H. rewrite !rev_involutive in H. congruence.
Qed.

(* a semantics on the one-point type, to use the walk lemma for purely structural facts *)
Definition unit_sem (I : Type) : Sem unit I :=
  {| s_dflt := tt; s_imm := fun _ => tt; s_un := fun _ _ => tt;
     s_rr := fun _ _ _ => tt; s_ri := fun _ _ _ => tt; s_ir := fun _ _ _ => tt;
     s_ch_rr := fun _ _ _ => TUnknown; s_ch_ri := fun _ _ _ => TUnknown |}.

(* ---------- (1a) structure of the simplified SSA tape ---------- *)
Theorem simplify_ssa_struct :
  forall (I : Type) (ao : bool) (m : nat) (parent : list (op I)) (trace : list tchoice)
         (z : simplified I),
    ssa_wf parent = true ->
    simplify ao m parent (count_choices parent) trace = Ok z ->
    wf_walk (length parent) (z_ssa z) ([], []) = true /\
    ssa_wf (z_ssa z) = true /\
    z_choices z = count_choices (z_ssa z) /\
    z_outputs z = count_outputs parent /\
    count_outputs parent = count_outputs (z_ssa z) /\
    length (z_ssa z) <= length parent + z_outputs z.
Proof.
  intros I ao m parent trace z Hwf Hs.
  destruct (simplify_ok_inv _ _ _ _ _ _ Hs) as (st' & Hlen & Hops & _ & Hssa & Hcc & Hoc & _).
  destruct (simplify_walk_facts (unit_sem I) [] (fun v => match v with tt => eq_refl end) parent _ st' Hwf Hops)
    as (tr & _ & _ & Hcnt & Hlenc & Hwfc & Hccc & Hocc & Hco & _).
  rewrite Hssa, Hcc, Hoc.
  split; [eapply wf_walk_bound_mono; [exact Hcnt|exact Hwfc]|].
  split; [unfold ssa_wf; eapply wf_walk_bound_mono; [|exact Hwfc]; lia|].
  split; [exact Hccc|]. split; [exact Hocc|]. split; [symmetry; exact Hco|]. lia.
Qed.

(* ---------- (1) the SSA-level theorem ---------- *)
Theorem simplify_ssa_correct :
  forall (V I : Type) (sem : Sem V I),
    (forall v, s_un sem UCopy v = v) ->
  forall (ao : bool) (m : nat) (parent : list (op I)) (trace : list tchoice)
         (inputs : list V) (e0 e0' : env) (out0 : list V) (z : simplified I),
    ssa_wf parent = true ->
    simplify ao m parent (count_choices parent) trace = Ok z ->
    valid_at sem inputs parent e0 out0 trace ->
    m_out (eval_tape sem parent inputs e0 out0) = m_out (eval_tape sem (z_ssa z) inputs e0' out0) /\
    wf_walk (length parent) (z_ssa z) ([], []) = true /\
    ssa_wf (z_ssa z) = true /\
    z_choices z = count_choices (z_ssa z) /\
    z_outputs z = count_outputs parent /\
    count_outputs parent = count_outputs (z_ssa z).
Proof.
  intros V I sem copy_id ao m parent trace inputs e0 e0' out0 z Hwf Hs Hval.
  destruct (simplify_ssa_struct I ao m parent trace z Hwf Hs) as (S1 & S2 & S3 & S4 & S5 & _).
  split; [|repeat split; assumption].
  destruct (simplify_ok_inv _ _ _ _ _ _ Hs) as (st' & Hlen & Hops & _ & Hssa & _).
  destruct (simplify_walk_facts sem inputs copy_id parent _ st' Hwf Hops)
    as (tr & Hch & Hltr & _ & _ & _ & _ & _ & _ & Hsem).
  destruct (trace_consumed _ _ _ Hch ltac:(lia)) as [-> _].
  rewrite Hssa. apply Hsem, Hval.
Qed.

(* ---------- (2) the register tape ---------- *)
Theorem simplify_reg_correct :
  forall (V I : Type) (sem : Sem V I) (ao : bool) (m : nat) (parent : list (op I))
         (trace : list tchoice) (z : simplified I),
    ssa_wf parent = true ->
    simplify ao m parent (count_choices parent) trace = Ok z ->
    obs_equal sem (z_ssa z) (z_reg z) /\ tape_bounds m (z_slots z) (z_reg z).
Proof.
  intros V I sem ao m parent trace z Hwf Hs.
  destruct (simplify_ssa_struct I ao m parent trace z Hwf Hs) as (S1 & _).
  destruct (simplify_ok_inv _ _ _ _ _ _ Hs) as (st' & _ & _ & _ & Hssa & _ & _ & Ha).
  rewrite <- Hssa in Ha.
  assert (Hm : 1 <= m).
  { unfold reg_tape_alloc in Ha. destruct (Nat.ltb 255 m); [discriminate|].
    destruct (Nat.eqb m 0) eqn:E; [discriminate|]. apply Nat.eqb_neq in E. lia. }
  split.
  - exact (alloc_small_budget_gen V I sem m (length parent) (length parent) _ _ _ Hm (le_n _) S1 Ha).
  - exact (alloc_bounds_gen I m (length parent) (length parent) _ _ _ Hm (le_n _) S1 Ha).
Qed.

(* parent outputs = outputs of the register tape, on every input where the trace is valid *)
Corollary simplify_reg_outputs :
  forall (V I : Type) (sem : Sem V I),
    (forall v, s_un sem UCopy v = v) ->
  forall (ao : bool) (m : nat) (parent : list (op I)) (trace : list tchoice)
         (inputs : list V) (e0 e0' : env) (out0 : list V) (z : simplified I),
    ssa_wf parent = true ->
    simplify ao m parent (count_choices parent) trace = Ok z ->
    valid_at sem inputs parent e0 out0 trace ->
    m_out (eval_tape sem parent inputs e0 out0) = m_out (eval_tape sem (z_reg z) inputs e0' out0).
Proof.
  intros V I sem copy_id ao m parent trace inputs e0 e0' out0 z Hwf Hs Hval.
  destruct (simplify_ssa_correct V I sem copy_id ao m parent trace inputs e0 e0 out0 z Hwf Hs Hval) as [E _].
  destruct (simplify_reg_correct V I sem ao m parent trace z Hwf Hs) as [O _].
  rewrite E. apply (O inputs e0 e0' out0).
Qed.
