(* Simplify.v — VmData::simplify + VmWorkspace (vm/data.rs).
   Walks the parent SSA tape root-first, consuming the trace back to front,
   renumbering live variables through `bind`, collapsing decided choices into
   CopyReg/CopyImm or aliasing, and feeding every emitted op to the allocator. *)
From Coq Require Import List Bool Arith.
From FV Require Import Ops Tape Lru Alloc.
Import ListNotations.

Section Simplify.
Context {I : Type}.
Notation op := (Tape.op I).

Record ws := { w_bind : list (option nat); w_count : nat }.

Definition active (w : ws) (i : nat) : result (option nat) :=
  match nth_error (w_bind w) i with Some v => Ok v | None => Err 41 end.

Definition get_or_insert_active (w : ws) (i : nat) : result (nat * ws) :=
  match nth_error (w_bind w) i with
  | None => Err 42
  | Some (Some b) => Ok (b, w)
  | Some None => Ok (w_count w, {| w_bind := list_upd (w_bind w) i (Some (w_count w)); w_count := S (w_count w) |})
  end.

Definition set_active (w : ws) (i b : nat) : result ws :=
  if Nat.ltb i (length (w_bind w)) then Ok {| w_bind := list_upd (w_bind w) i (Some b); w_count := w_count w |}
  else Err 43.

Record sst := {
  s_ws : ws;
  s_choices : list tchoice;     (* remaining trace, last evaluation-order entry first *)
  s_out : list op;              (* ops_out, head = most recently pushed *)
  s_cc : nat;                   (* choice_count of the new tape *)
  s_oc : nat;                   (* output_count of the new tape *)
}.

Inductive action := Emit (o : op) (w : ws) (cc : nat) | Skip (w : ws).

Definition next_choice (l : list tchoice) : result (tchoice * list tchoice) :=
  match l with c :: r => Ok (c, r) | [] => Err 44 (* choice_iter.next().unwrap() *) end.

(* the body of the loop for a non-Output op whose output [index] is active as [ni] *)
Definition simplify_active (o : op) (ni : nat) (w : ws) (chs : list tchoice)
  : result (action * list tchoice) :=
  match o with
  | OInput _ i => Ok (Emit (OInput ni i) w 0, chs)
  | OCopyImm _ c => Ok (Emit (OCopyImm ni c) w 0, chs)
  | OUn UCopy _ src =>
      match active w src with
      | Err c => Err c
      | Ok (Some ns) => Ok (Emit (OUn UCopy ni ns) w 0, chs)
      | Ok None => match set_active w src ni with Ok w' => Ok (Skip w', chs) | Err c => Err c end
      end
  | OUn u _ a =>
      match get_or_insert_active w a with
      | Ok (na, w') => Ok (Emit (OUn u ni na) w' 0, chs)
      | Err c => Err c
      end
  | OBinRI b _ a imm =>
      if bop_has_choice b then
        match next_choice chs with
        | Err c => Err c
        | Ok (TLeft, chs') =>
            match active w a with
            | Err c => Err c
            | Ok (Some na) => Ok (Emit (OUn UCopy ni na) w 0, chs')
            | Ok None => match set_active w a ni with Ok w' => Ok (Skip w', chs') | Err c => Err c end
            end
        | Ok (TRight, chs') => Ok (Emit (OCopyImm ni imm) w 0, chs')
        | Ok (TBoth, chs') =>
            match get_or_insert_active w a with
            | Ok (na, w') => Ok (Emit (OBinRI b ni na imm) w' 1, chs')
            | Err c => Err c
            end
        | Ok (TUnknown, _) => Err 45   (* panic!("oh no") *)
        end
      else
        match get_or_insert_active w a with
        | Ok (na, w') => Ok (Emit (OBinRI b ni na imm) w' 0, chs)
        | Err c => Err c
        end
  | OBinIR b _ a imm =>
      if bop_has_choice b then Err 46 (* no such SsaOp variant *) else
      match get_or_insert_active w a with
      | Ok (na, w') => Ok (Emit (OBinIR b ni na imm) w' 0, chs)
      | Err c => Err c
      end
  | OBinRR b _ l r =>
      let both cc chs' :=
        match get_or_insert_active w l with
        | Err c => Err c
        | Ok (nl, w1) =>
            match get_or_insert_active w1 r with
            | Err c => Err c
            | Ok (nr, w2) => Ok (Emit (OBinRR b ni nl nr) w2 cc, chs')
            end
        end in
      let side x chs' :=
        match active w x with
        | Err c => Err c
        | Ok (Some nx) => Ok (Emit (OUn UCopy ni nx) w 0, chs')
        | Ok None => match set_active w x ni with Ok w' => Ok (Skip w', chs') | Err c => Err c end
        end in
      if bop_has_choice b then
        match next_choice chs with
        | Err c => Err c
        | Ok (TLeft, chs') => side l chs'
        | Ok (TRight, chs') => side r chs'
        | Ok (TBoth, chs') => both 1 chs'
        | Ok (TUnknown, _) => Err 45
        end
      else both 0 chs
  | OOutput _ _ | OLoad _ _ | OStore _ _ => Err 47
  end.

Definition simplify_op (st : sst) (o : op) : result sst :=
  match o with
  | OOutput reg i =>
      match get_or_insert_active (s_ws st) reg with
      | Err c => Err c
      | Ok (nr, w') =>
          Ok {| s_ws := w'; s_choices := s_choices st; s_out := OOutput nr i :: s_out st;
                s_cc := s_cc st; s_oc := S (s_oc st) |}
      end
  | _ =>
      match op_out o with
      | None => Err 48
      | Some index =>
          match active (s_ws st) index with
          | Err c => Err c
          | Ok None =>
              if op_has_choice o then
                match next_choice (s_choices st) with
                | Err c => Err c
                | Ok (_, chs') => Ok {| s_ws := s_ws st; s_choices := chs'; s_out := s_out st; s_cc := s_cc st; s_oc := s_oc st |}
                end
              else Ok st
          | Ok (Some ni) =>
              match simplify_active o ni (s_ws st) (s_choices st) with
              | Err c => Err c
              | Ok (Emit o' w' cc, chs') =>
                  Ok {| s_ws := w'; s_choices := chs'; s_out := o' :: s_out st; s_cc := s_cc st + cc; s_oc := s_oc st |}
              | Ok (Skip w', chs') =>
                  Ok {| s_ws := w'; s_choices := chs'; s_out := s_out st; s_cc := s_cc st; s_oc := s_oc st |}
              end
          end
      end
  end.

Fixpoint simplify_ops (ops : list op) (st : sst) : result sst :=
  match ops with
  | [] => Ok st
  | o :: rest => match simplify_op st o with Ok st' => simplify_ops rest st' | Err c => Err c end
  end.

Record simplified := {
  z_ssa : list op;       (* root first *)
  z_choices : nat;
  z_outputs : nat;
  z_reg : list op;       (* root first *)
  z_slots : nat;
}.

(* The closing assertion of VmData::simplify:  count + [final_assert_k] == ops_out.len().
   The constant is regenerated from the source (gen/SimplifyGen.v) and compared. *)
Definition simplify_final_ok (outputs_k : bool) (count noutputs len : nat) : bool :=
  if outputs_k then Nat.eqb (count + noutputs) len else Nat.eqb (count + 1) len.

(* [assert_outputs] selects which closing assertion the source has (see gen). *)
Definition simplify (assert_outputs : bool) (m : nat) (parent : list op) (parent_choices : nat)
           (trace : list tchoice) : result simplified :=
  if negb (Nat.eqb (length trace) parent_choices) then Err 200 (* BadChoiceSlice: an error value *) else
  let st0 := {| s_ws := {| w_bind := repeat None (length parent); w_count := 0 |};
                s_choices := rev trace; s_out := []; s_cc := 0; s_oc := 0 |} in
  match simplify_ops parent st0 with
  | Err c => Err c
  | Ok st =>
      let ops_out := rev (s_out st) in
      if negb (simplify_final_ok assert_outputs (w_count (s_ws st)) (s_oc st) (length ops_out)) then Err 40 else
      match reg_tape_alloc m (length parent) ops_out with
      | Err c => Err c
      | Ok (rt, slots) =>
          Ok {| z_ssa := ops_out; z_choices := s_cc st; z_outputs := s_oc st; z_reg := rt; z_slots := slots |}
      end
  end.

End Simplify.
Arguments simplified : clear implicits.
