(* FlattenRun.v — putting the two loops and the Output/CopyImm prologue together:
   [flatten] succeeds on an [arena_ok] arena, and its result is described by the
   final invariants of both loops. *)
From Coq Require Import List Bool Arith Lia.
From FV Require Import Ops Tape Alloc Flatten CtxEval FlattenLib FlattenPass1 FlattenPass2.
Import ListNotations.

Section Run.
Context {I : Type}.
Notation op := (Tape.op I).

(* the prologue in push order (= root-first tape order) *)
Fixpoint pro_fwd (mp : list (option (@slot I))) (roots : list nat) (i slots : nat) : list op :=
  match roots with
  | [] => []
  | r :: rest =>
      match nth r mp None with
      | Some (SReg out) => OOutput out i :: pro_fwd mp rest (S i) slots
      | Some (SImm c) => OOutput slots i :: OCopyImm slots c :: pro_fwd mp rest (S i) (S slots)
      | None => []
      end
  end.

Lemma root_ops_eq mp : forall roots i slots acc,
  (forall r, In r roots -> nth r mp None <> None) ->
  exists sl, root_ops mp roots i slots acc = Ok (rev (pro_fwd mp roots i slots) ++ acc, sl).
Proof.
  induction roots as [|r rest IH]; simpl; intros i slots acc H; eauto.
  assert (Hr : nth r mp None <> None) by auto.
  destruct (nth r mp None) as [[out|c]|]; try congruence.
  - destruct (IH (S i) slots (OOutput out i :: acc)) as (sl & E); auto.
    exists sl. rewrite E. simpl. rewrite <- app_assoc. reflexivity.
  - destruct (IH (S i) (S slots) (OCopyImm slots c :: OOutput slots i :: acc)) as (sl & E); auto.
    exists sl. rewrite E. simpl. rewrite <- !app_assoc. reflexivity.
Qed.

Lemma pro_fwd_choices mp : forall roots i slots, count_choices (pro_fwd mp roots i slots) = 0.
Proof.
  induction roots as [|r rest IH]; simpl; intros; auto.
  destruct (nth r mp None) as [[out|c]|]; auto; unfold count_choices in *; simpl; auto.
Qed.

Lemma count_choices_rev (l : list op) : count_choices (rev l) = count_choices l.
Proof.
  unfold count_choices. induction l; simpl; auto.
  rewrite filter_app, app_length, IHl. simpl. destruct (op_has_choice a); simpl; lia.
Qed.

Variable arena : list (cnode I).
Variable roots : list nat.
Hypothesis OK : arena_ok arena roots.

Definition final_pro (s1 : @p1 I) : list op := pro_fwd (p1_map s1) roots 0 (p1_slots s1).

Lemma flatten_run :
  exists s1 vis s2 order,
    Inv1 arena roots s1 [] vis /\
    Inv2 arena roots s1 vis (rev (final_pro s1)) s2 [] order /\
    flatten arena roots =
      Ok ({| t_ops := rev (p2_tape s2); t_choices := p2_choices s2; t_outputs := length roots |},
          p1_vars s1).
Proof.
  destruct OK as (WF & HR & HN).
  unfold flatten.
  set (fuel := S (length roots + 2 * length arena)).
  destruct (pass1_total arena roots WF fuel (st0 arena) (rev roots) [] (inv1_init arena roots HR))
    as (s1 & vis & E1 & F1).
  { simpl. rewrite rev_length, cf_repeat. unfold fuel. lia. }
  fold (st0 arena). rewrite E1.
  destruct (root_ops_eq (p1_map s1) roots 0 (p1_slots s1) []) as (sl & Er).
  { intros r Hr. destruct (i1_roots _ _ _ _ _ F1 r Hr) as [Hv|[]].
    destruct (vis_node arena roots s1 vis F1 r Hv) as (o & Eo).
    pose proof (i1_map _ _ _ _ _ F1 r o Hv Eo) as S.
    destruct o; simpl in S; try (destruct S as (? & -> & _)); congruence. }
  rewrite Er, app_nil_r.
  assert (Hpc : count_choices (rev (final_pro s1)) = 0).
  { rewrite count_choices_rev. apply pro_fwd_choices. }
  destruct (pass2_total arena roots OK s1 vis F1 _ Hpc fuel
              (st2_0 arena s1 (rev (final_pro s1))) (rev roots) [])
    as (s2 & order & E2 & F2).
  { apply inv2_init; auto. }
  { simpl. rewrite rev_length, cf_repeat. unfold fuel. lia. }
  unfold st2_0, final_pro in E2. rewrite E2.
  exists s1, vis, s2, order. auto.
Qed.

End Run.
