(* IntervalAll.v — C03 for every opcode and every tape.

   [un_sound] / [bin_sound]: the interval operation of EVERY unary / binary opcode
   encloses the point operation (over the extended reals with NaN), and
   [interval_tape_sound]: for every tape, every box of valid intervals and every
   point inside it, if no intermediate point value is NaN then every output of
   the interval evaluation is a panic ([None]) or a valid interval enclosing the
   corresponding point output.  By C11 (IntervalTotal*.v, IntervalTapeTotal.v) no
   operation can panic on valid operands, so in fact every output is [Some]:
   [interval_tape_sound_no_panic]. *)
From Coq Require Import Reals Lra Lia List Bool.
From FV Require Import Ops Tape Interval Related ER ERLemmas IntervalSound IntervalLibm
  IntervalTrig IntervalRem IntervalAtan2 IntervalTape IntervalTapeTotal.
Import ListNotations.
Local Open Scope R_scope.

Section All.
Variable rnd : er -> er.
Variable mix : er -> er -> er.
Hypothesis Hrnd : rnd_in_unit rnd.       (* rng::rand lands in [0,1] *)
Notation F := (er_fl_gen rnd mix).

Theorem un_sound u : sound1s (i_un F u) (er_un rnd u).
Proof.
  destruct u; cbn [i_un er_un].
  - apply ineg_sound.
  - apply iabs_sound.
  - apply irecip_sound.
  - apply isqrt_sound.
  - apply isquare_sound.
  - apply ifloor_sound.
  - apply iceil_sound.
  - apply iround_sound.
  - apply isin_sound.
  - apply icos_sound.
  - apply itan_sound.
  - apply iasin_sound.
  - apply iacos_sound.
  - apply iatan_sound.
  - apply iexp_sound.
  - apply iln_sound.
  - apply inot_sound.
  - now apply irand_sound.
  - (* CopyReg *) intros a x V E _ r [= <-]. now split.
Qed.

Theorem bin_sound b : sound2s (i_bin F b) (er_bin mix b).
Proof.
  destruct b; cbn [i_bin er_bin].
  - apply iadd_sound.
  - apply isub_sound.
  - apply imul_sound.
  - apply idiv_sound.
  - apply iatan2_sound.
  - apply imin_sound.
  - apply imax_sound.
  - apply icompare_sound.
  - apply irem_euclid_sound.
  - apply iand_sound.
  - apply ior_sound.
  - apply imix_sound.
Qed.

(* the requested form, with the (redundant) operand hypotheses *)
Corollary un_sound' u : sound1 (i_un F u) (er_un rnd u).
Proof. apply sound1s_sound1, un_sound. Qed.
Corollary bin_sound' b : sound2 (i_bin F b) (er_bin mix b).
Proof. apply sound2s_sound2, bin_sound. Qed.

Lemma tape_cov_all tape : tape_cov (fun _ => true) (fun _ => true) tape = true.
Proof. unfold tape_cov. apply forallb_forall. intros o _. destruct o; reflexivity. Qed.

Theorem interval_tape_sound tape n pt box :
  in_box pt box ->
  reads_written (rev tape) [] ->
  all_good (er_sem rnd mix) good pt (rev tape)
           (init_state (fresh_env (er_sem rnd mix)) (fresh_out (er_sem rnd mix) n)) ->
  Forall2 rel (eval_outputs (er_sem rnd mix) tape n pt)
              (eval_outputs (interval_sem F) tape n (map Some box)).
Proof.
  apply (tape_sound rnd mix (fun _ => true) (fun _ => true)
           (fun u _ => un_sound u) (fun b _ => bin_sound b)).
  apply tape_cov_all.
Qed.

Corollary interval_tape_sound_nth tape n pt box k i :
  in_box pt box ->
  reads_written (rev tape) [] ->
  all_good (er_sem rnd mix) good pt (rev tape)
           (init_state (fresh_env (er_sem rnd mix)) (fresh_out (er_sem rnd mix) n)) ->
  nth_error (eval_outputs (interval_sem F) tape n (map Some box)) k = Some (Some i) ->
  exists v, nth_error (eval_outputs (er_sem rnd mix) tape n pt) k = Some v /\ valid i /\ encl i v.
Proof.
  apply (tape_sound_nth rnd mix (fun _ => true) (fun _ => true)
           (fun u _ => un_sound u) (fun b _ => bin_sound b)).
  apply tape_cov_all.
Qed.

(* C03 + C11: nothing can panic, so every output IS a valid interval enclosing the
   point output *)
Corollary interval_tape_sound_no_panic tape n pt box :
  in_box pt box ->
  reads_written (rev tape) [] ->
  all_good (er_sem rnd mix) good pt (rev tape)
           (init_state (fresh_env (er_sem rnd mix)) (fresh_out (er_sem rnd mix) n)) ->
  Forall2 (fun v o => exists i, o = Some i /\ valid i /\ encl i v)
          (eval_outputs (er_sem rnd mix) tape n pt)
          (eval_outputs (interval_sem F) tape n (map Some box)).
Proof.
  intros B RW G.
  pose proof (interval_tape_sound tape n pt box B RW G) as H.
  assert (Vb : Forall valid box).
  { clear -B. induction B as [|v i pt box [V _] _ IH]; constructor; auto. }
  pose proof (tape_no_panic rnd mix tape n box Vb RW) as K.
  induction H as [|v o lv lo Hvo _ IH]; [constructor|].
  inversion K as [|? ? Ko Kl]; subst. constructor; [|now apply IH].
  destruct o as [i|]; [|contradiction]. exists i. cbn in Hvo. tauto.
Qed.

End All.

(* the concrete instance [er_fl] (rand = mix = constant 0) *)
Theorem interval_tape_sound_er_fl tape n pt box :
  in_box pt box ->
  reads_written (rev tape) [] ->
  all_good (er_sem (fun _ => EFin 0) (fun _ _ => EFin 0)) good pt (rev tape)
           (init_state (fresh_env (er_sem (fun _ => EFin 0) (fun _ _ => EFin 0)))
                       (fresh_out (er_sem (fun _ => EFin 0) (fun _ _ => EFin 0)) n)) ->
  Forall2 rel (eval_outputs (er_sem (fun _ => EFin 0) (fun _ _ => EFin 0)) tape n pt)
              (eval_outputs (interval_sem er_fl) tape n (map Some box)).
Proof.
  apply interval_tape_sound. intros x _. cbn. lra.
Qed.

Print Assumptions interval_tape_sound.
Print Assumptions choice_sound.
