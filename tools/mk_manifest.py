#!/usr/bin/env python3
"""Writes MANIFEST.json from the table below (kept next to the specs)."""
import json, os
ROOT = os.path.dirname(os.path.dirname(os.path.abspath(__file__)))
props = [json.loads(l) for l in open(os.path.join(ROOT, "properties.jsonl"))]

NOTE = ("Trusted: Coq 8.16.1 kernel; the four stdlib axioms reachable through Flocq (sig_not_dec, sig_forall_dec, "
        "functional_extensionality_dep, classic) for theorems that mention f32; ExtrOcamlBasic extraction + extract/driver.ml + "
        "libm_stubs.c (glibc libm as oracle); tools/gen_tables.py; the Rust harness and cfg(fidget_verif) hooks.")

CLAIMS = {
 "C01": dict(cat="proof", tech="machine-checked proof in Coq (verified translation validator; for-all allocator theorem in progress) + model/implementation correspondence",
   text="Kernel-checked: a register tape accepted by Validate.check_alloc computes its SSA tape for every value type, opcode semantics, input and stale slot contents; the validator is run on every register tape the implementation emits. Flatten (SsaTape::new), RegisterAllocator, LRU and the VM loops are modelled in Gallina and tied to the code bit-for-bit (tapes op-for-op, slot counts, f32 results, Context::eval) on generated DAGs at budgets 1..255.",
   ref="DESIGN.md §5 C01, §4"),
 "C04": dict(cat="proof", tech="machine-checked proof in Coq (verified simplification validator, trace validity theorem) + model/implementation correspondence",
   text="Kernel-checked: (1) a child tape accepted by SimplifyValidate.check_simplify writes the parent's outputs at every input where the trace is valid (any value type/semantics with CopyReg = id); (2) a trace recorded by an evaluator with an honest choice function is valid at its input; (3) both composed for f32 point traces. The validators run on every parent/trace/child triple and every SSA/register pair the implementation produces (interpreter at 15 budget pairs, x86_64 JIT, point and interval traces, two-level chains). VmData::simplify is modelled and tied op-for-op.",
   ref="DESIGN.md §5 C04"),
 "C20": dict(cat="proof", tech="machine-checked proof in Coq (trace/shape theorems generic in value type) + model/implementation correspondence of all four tracing evaluators",
   text="Kernel-checked for every value type and semantics: one trace entry per choice clause, each entry is the choice function of the operand values at that clause, no trace iff all clauses undecided, exactly the requested number of outputs. The traces of the interpreter point/interval evaluators equal the model's on generated DAGs with up to 220+ clauses; JIT point traces must equal the interpreter's and JIT interval entries must be the model's or Both; output shapes for slice lengths 0..33 and function/tape metadata are checked by the oracle.",
   ref="DESIGN.md §5 C20"),
 "C10": dict(cat="proof", tech="machine-checked proof in Coq (reset = new, stale-content independence) + differential histories against fresh objects",
   text="Kernel-checked: RegisterAllocator::reset and VmWorkspace::reset yield exactly the freshly constructed state from any prior state; evaluation results are independent of stale output-vector contents when every output index is written, and a validated register tape evaluated with arbitrary stale slots equals its SSA tape evaluated fresh (all value types / semantics). Random histories over long-lived evaluators, recycled function storage, recycled tape storage (JIT Mmap) and a reused workspace are compared step by step with fresh-object twins on interpreter (N=4, 255) and JIT.",
   ref="DESIGN.md §5 C10", note="Executable-page reuse inside Mmap is exercised by the histories but not modelled."),
 "C15": dict(cat="proof", tech="machine-checked proof in Coq (verified lockstep equivalence checker on the decoded bytecode, decoder facts) + model/implementation correspondence",
   text="Kernel-checked: if Equiv.check_equiv accepts (register tape, tape decoded from the words by a decoder written from the format documentation only) then both compute the same outputs for every value type, semantics, input and initial register/memory contents; any stream the decoder accepts carries the documented marker words with two words per op; the bounds check implies every register index < reg_count and != 255 and every memory index < mem_count. The checks run on every word stream Bytecode::new emits; Bytecode::new incl. repack_map is also modelled and compared word-for-word; a Rust documentation-only interpreter is compared with the VM on the same inputs.",
   ref="DESIGN.md §5 C15"),
 "C11": dict(cat="proof", tech="machine-checked proof in Coq (allocator totality and slot bounds, argument-check model) + correspondence of interval value-or-panic + totality oracle in child processes",
   text="Kernel-checked: allocation never fails for budgets 3..255 and every slot index of a compiled tape is below slot_count (so the interpreter's slot accesses are in bounds), argument checks return error values exactly when too few variables / mismatched slice lengths are supplied. Interval::new's assertion is an explicit error value of the interval model, and the interpreter's interval result (value or panic) equals the model's on overflow-prone programs; every evaluator kind of both backends is run under catch_unwind in child processes on finite inputs up to f32::MAX, plus a malformed-argument stream.",
   ref="DESIGN.md §5 C11", note="Known finding: JIT half-NaN intervals (KNOWN_FINDINGS.txt)."),
 "C03": dict(cat="proof", tech="machine-checked proof in Coq (compositional soundness theorem; per-opcode enclosure lemmas over extended reals in progress) + bit-exact correspondence of the interval model + enclosure oracle on interpreter and JIT",
   text="Kernel-checked: any relation preserved by every opcode under a guard on the point values is preserved by every tape (all value types/semantics) — the 'soundness through composition' that the suite never tests. types/interval.rs is modelled once over an abstract float structure; its f32 instance equals the interpreter's interval results bit-for-bit (up to the sign of zero bounds) on DAGs with every node exported, including through Transformable; the enclosure oracle runs on interpreter and JIT per node and per sample point with local obligations.",
   ref="DESIGN.md §5 C03", note="Known findings: NaN operand hidden behind a non-NaN interval (D9), hash opcodes on signed zero. Libm monotonicity is assumed, not proved."),
 "C02": dict(cat="proof", tech="machine-checked proof in Coq of the slice driver (all lengths, in-bounds) + differential execution JIT vs interpreter with guard pages in child processes",
   text="Kernel-checked: JitBulkEval::eval's chunking returns exactly n results with result i = kernel(lane i) for every length n and SIMD width S>0, and all its reads/writes are inside the caller's slices / output rows. The hand-written x86_64 sequences are NOT proved: they are compared with the interpreter (which is tied to the Coq model by C01) on every opcode and operand form, on special values, every slice length 0..35, with caller slices adjacent to inaccessible pages.",
   ref="DESIGN.md §5 C02", note="Partial: instruction sequences, register spills and the stack frame are covered by correspondence only; aarch64 backend not executable here."),
 "C05": dict(cat="proof", tech="machine-checked proof in Coq (value lane = point evaluation for every tape; derivative lemmas over R in progress) + bit-exact correspondence of the gradient model + local chain-rule oracle in f64",
   text="Kernel-checked for every float structure and every tape: the value lane of the gradient evaluator is the point evaluation (composition through Related.tape_related). types/grad.rs and the grad-slice loop are modelled once over the abstract float structure; the f32 instance equals the interpreter bit-for-bit with every node exported and arbitrary seeds. The oracle checks the chain rule per node in f64 from the evaluator's own operand duals (interpreter and JIT) and the symbolic derivative against forward mode.",
   ref="DESIGN.md §5 C05", note="Partial: the is_derive theorems (GradSound over R) are being proved; f32 rounding is covered by the tolerance oracle only."),
 "C12": dict(cat="proof", tech="machine-checked proof in Coq (f32 facts behind every rewrite via Flocq; invariant / dedup / meaning / import-of-export theorems for every constructor of the Context model) + node-for-node correspondence of the Context model + independent evaluation oracle",
   text="Kernel-checked on Flocq binary32: operand reordering of add/mul/min/max is bit-exact, a+a = 2a for every value, and each identity-elimination rewrite is exact or exact up to the sign of zero under stated (and shown necessary) finiteness conditions. The Context (dedup arena, every constructor with its rewrites, import) is modelled in Gallina; kernel-checked over that model: every public call keeps the arena well-formed, deduplicated and canonical and only appends (P1), repeating a call returns the same node (P2), the node built denotes the IEEE operation of its operands up to the sign of zero under necessary side conditions and exactly when no operand is a constant (P3), import(export(c)) is the identity (P5). The model equals the implementation node-for-node on random constructor sequences and imported trees; meaning, dedup, import/export, Eq/Hash and 10^6-deep trees are checked by the oracle.",
   ref="DESIGN.md §5 C12", note="Known finding: rewrites change the sign of zero, observable through atan2/rand/mix (KNOWN_FINDINGS.txt)."),
 "C13": dict(cat="proof", tech="machine-checked proof in Coq (import-as-substitution over the Context model; affine composition over the reals) + node-for-node correspondence of the import model (frames, affine rows) + substitution-semantics oracle",
   text="Kernel-checked over the reals: the flattened matrix of consecutive affine remaps acts as the factors applied in order (later remap first on the coordinates). Context::import with RemapAxes / RemapAffine is modelled as a recursive substitution (Ctx.import_rec); kernel-checked: the imported node evaluates to the tree's substitution denotation (exactly when no intermediate is a zero, up to the sign of zero otherwise), for every tree table, frame nesting and matrix. The model equals the implementation node-for-node on random nested remaps; values are compared with the substitution semantics evaluated directly on the tree.",
   ref="DESIGN.md §5 C13", note="Exact equality holds where no intermediate value is a zero; up to the sign of zero otherwise (import_sound_z), with the observable sign change a recorded finding of C12."),
 "C16": dict(cat="proof", tech="machine-checked proof in Coq (named planes / revolve axis from regenerated tables; 35 geometry theorems over the reals for every builder) + node-for-node correspondence of every shape builder + closed-form geometry oracle",
   text="Every From<_> for Tree body of fidget-shapes is a Gallina tree builder generic in the scalar type; the f32 instance imported into the Context model equals Tree::from(shape) imported into a Context node-for-node for all 26 shapes and named planes on random parameters (including nalgebra's f32 affine products). Named-plane axes and RevolveY's radius plane are regenerated from the source and proved to be the documented ones. Kernel-checked over the reals (ShapesSound): inside <-> negative for circle/sphere/rectangle/box/plane, set algebra for union/intersection/inverse/difference, blend contains the union and equals it at radius 0, den(T(s))(p) = den(s)(T^-1 p) for move/scale/rotate (Rodrigues)/reflect*/revolve/extrude/loft/repeat. The oracle compares every shape with closed-form f64 geometry at 24 points per case.",
   ref="DESIGN.md §5 C16", note="The real-number theorems are about the same generic builders whose f32 instance is compared with the implementation."),
 "C18": dict(cat="proof", tech="machine-checked proof in Coq over the reals of the view model (zoom fixes the cursor point, pan tracks the grab, flags, ranges, for every event sequence) + bit-exact replay of the f32 instance of the same model against Canvas2 / Canvas3 on random event sequences + property oracle on the implementation",
   text="fidget-gui's View2/View3, handles, Canvas2/Canvas3 and RegionSize::screen_to_world are one Gallina model over an abstract number structure. Kernel-checked at the reals: world_to_model is translation*rotation*scale; zoom keeps the model point under the cursor for any amount / scale / yaw / pitch; a pan drag keeps the grabbed model point under the cursor across any zoom-free event sequence (and a zoom during a drag provably breaks that: drag2_after_zoom_refuted); rotation leaves centre and scale alone, pitch in [0,pi], |yaw| < 2pi along every run; every returned flag is false exactly when the view is unchanged, for every event and every run. The f32 (Flocq) instance of the same definitions replays random event sequences and must equal the implementation's view and flags bit for bit after every event.",
   ref="DESIGN.md §5 C18", note="After a rotation the centre is compared only through the oracle (nalgebra's matrix products round differently); infinite / NaN views are outside the tie."),
 "C19": dict(cat="proof", tech="machine-checked proof in Coq of the solver's bookkeeping (seed packing, result keys, fixpoint) + seed-table correspondence through a hook + solution oracle on both backends",
   text="Kernel-checked: column gi of the Jacobian reads lane gi mod 3 of sample gi / 3, which carries the unit seed of free variable gi and of no other (any number of unknowns); solve returns a value for exactly the free parameters; when every residual is exactly zero the start is returned unchanged. The seed rows left in the gradient input array and the Jacobian are observed through a cfg(fidget_verif) hook and compared with the model / the coefficient matrix; solutions, key sets, fixed parameters, satisfied starts and backend agreement are checked on random consistent systems.",
   ref="DESIGN.md §5 C19", note="Partial: convergence of the numerical core is tested, not proved."),
}

def main():
    checks = []
    for pid, c in CLAIMS.items():
        checks.append({
            "property_id": pid, "quick_cmd": f"./check {pid}", "thorough_cmd": f"./check {pid} --tier thorough",
            "evidence_file": f"/verif/evidence/{pid}.json", "replay_cmd_template": f"./check {pid} --replay {{path}}",
            "engine": "coq-model+correspondence",
            "level_claimed": {"category": c["cat"], "text": c["text"], "design_ref": c["ref"]},
            "level_note": NOTE + " " + c.get("note", ""), "technique": c["tech"]})
    man = {
        "version": 1, "setup_cmd": "./setup.sh",
        "hooks": {"guard": "fidget_verif",
                  "enable": "RUSTFLAGS=\"--cfg fidget_verif\" (set in /verif/harness/.cargo/config.toml [build] rustflags)",
                  "baseline_off_cmd": "cd /repo && cargo test --workspace --no-fail-fast --offline",
                  "source_commits": ["8b89353", "aa5117c"], "add_only": True},
        "engines": [{"name": "coq-model+correspondence", "path": "/verif/check", "serves_properties": sorted(CLAIMS),
                     "kind_free_text": "Coq 8.16 theorems about executable Gallina models of fidget; models tied to /repo by differential execution (extracted OCaml runner vs Rust harness on the same generated cases), by tables regenerated from the Rust source on every run, and by kernel-verified validators run on the implementation's own output"}],
        "checks": checks,
        "not_applicable": [{"property_id": p["id"], "reason": "check not built yet in this session (model planned in DESIGN.md; work in progress)"}
                           for p in props if p["id"] not in CLAIMS],
        "notes": "See DESIGN.md. Checks are added as they pass on the unchanged (or repaired) tree. Repaired defects are listed in KNOWN_FINDINGS.txt as fixed: entries.",
    }
    json.dump(man, open(os.path.join(ROOT, "MANIFEST.json"), "w"), indent=1)

if __name__ == "__main__":
    main()
