#!/usr/bin/env python3
"""Runs registered checks against a seeded mutation applied to /repo, then undoes it.

usage: seed_test.py <dir with patch.diff> <PROP> [PROP ...]   (quick tier)
Writes <dir>/detection.json: for each property the exit code, the VIOLATION / KNOWN-FINDING lines
and the summary line of the check.  /repo is restored with `git checkout -- .` in every case."""
import json, os, re, subprocess, sys, time

def main():
    d = os.path.abspath(sys.argv[1]); props = sys.argv[2:]
    st = subprocess.run("git -C /repo status --porcelain", shell=True, capture_output=True, text=True).stdout.strip()
    if st: sys.exit("/repo is not clean:\n" + st)
    rc = subprocess.run(f"git -C /repo apply {d}/patch.diff", shell=True, capture_output=True, text=True)
    if rc.returncode: sys.exit("patch does not apply: " + rc.stderr)
    res = {}
    try:
        for p in props:
            t0 = time.time()
            r = subprocess.run(f"./check {p}", shell=True, cwd="/verif", capture_output=True, text=True, timeout=3600,
                               env=dict(os.environ, VERIF_TIER="quick"))
            out = r.stdout + r.stderr
            res[p] = {"exit": r.returncode, "wall_s": round(time.time() - t0, 1),
                      "violation": [l for l in out.splitlines() if l.startswith("VIOLATION")],
                      "summary": [l for l in out.splitlines() if l.startswith("[check]")][-3:]}
            print(p, "exit", r.returncode, res[p]["violation"][:1], flush=True)
    finally:
        subprocess.run("git -C /repo checkout -- .", shell=True)
    path = f"{d}/detection.json"
    old = json.load(open(path)) if os.path.exists(path) else {}
    old.update(res)
    json.dump(old, open(path, "w"), indent=1)

if __name__ == "__main__":
    main()
