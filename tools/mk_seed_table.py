#!/usr/bin/env python3
"""Files the detection results next to the confirmed seeded changes and (re)writes the table in
DESIGN.md between the markers <!-- SEEDTABLE --> ... <!-- /SEEDTABLE -->."""
import json, os, re, glob, shutil

ROOT = os.path.dirname(os.path.dirname(os.path.abspath(__file__)))
rows = []
for d in sorted(glob.glob(os.path.join(ROOT, "seeded", "C??-*"))):
    name = os.path.basename(d)
    parts = name.split("-")
    prop, k = parts[0], parts[-1]
    incdir = {"r2": "_incoming2", "r3": "_incoming3", "r4": "_incoming4"}.get(parts[1], "_incoming") if len(parts) == 3 else "_incoming"
    inc = os.path.join(ROOT, "seeded", incdir, prop, k, "detection.json")
    if os.path.exists(inc):
        shutil.copy(inc, os.path.join(d, "detection.json"))
    det = json.load(open(os.path.join(d, "detection.json"))) if os.path.exists(os.path.join(d, "detection.json")) else {}
    meta = json.load(open(os.path.join(d, "meta.json")))
    conf = meta.get("confirmation", {})
    caught = []
    for p, r in sorted(det.items()):
        if r.get("exit") == 1:
            nf = any("no-failing-input-found" in v for v in r.get("violation", []))
            caught.append(p + (" (proof / correspondence, no failing input)" if nf else ""))
    summary = re.sub(r"\s+", " ", meta.get("summary", ""))
    summary = summary[:150] + ("…" if len(summary) > 150 else "")
    rows.append((name, "yes" if conf.get("kept") else "NO: " + str(conf.get("error", conf.get("existing_tests_with_patch", "")))[:60],
                 ", ".join(caught) if caught else "—", summary.replace("|", "/")))
    meta["detected_by"] = caught
    json.dump(meta, open(os.path.join(d, "meta.json"), "w"), indent=1)

tbl = ["", "| change | confirmed | caught by | what was changed |", "|---|---|---|---|"]
for r in rows:
    tbl.append("| %s | %s | %s | %s |" % r)
n_caught = sum(1 for r in rows if r[2] != "—")
tbl.append("")
tbl.append(f"{len(rows)} confirmed changes on file, {n_caught} caught by at least one check.")
tbl.append("")
text = "\n".join(tbl)
p = os.path.join(ROOT, "DESIGN.md")
s = open(p).read()
if "<!-- SEEDTABLE -->" in s:
    s = re.sub(r"<!-- SEEDTABLE -->.*?<!-- /SEEDTABLE -->", "<!-- SEEDTABLE -->" + text + "<!-- /SEEDTABLE -->", s, flags=re.S)
else:
    s = s.replace("SEEDTABLE", "<!-- SEEDTABLE -->" + text + "<!-- /SEEDTABLE -->", 1)
open(p, "w").write(s)
print(len(rows), "rows,", n_caught, "caught")
