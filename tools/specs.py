"""Per-property specifications and the generic check flow."""
import json, os, re, sys, time, shutil
from fvlib import *

SPECS = {}


def spec(pid, **kw):
    SPECS[pid] = kw


# ------------------------------------------------------------------ post steps
def post_validate_impl(work, st):
    """Runs the kernel-verified validator (Validate.check_alloc) on the SSA tape /
    register tape pairs printed by the implementation itself."""
    lines = open(os.path.join(work, "impl.txt")).read().splitlines()
    vals = []
    idx = []
    for k, ln in enumerate(lines):
        s = split_sections(ln)
        if "ssa" in s and "reg" in s and not s["reg"].startswith("reg err") and not s["ssa"].startswith("ssa err"):
            ssa = s["ssa"].split(" cc ")[0][len("ssa "):]
            reg = s["reg"].split(" ", 2)[2]
            vals.append(f"val {ssa} {reg}")
            idx.append(k)
    vp = os.path.join(work, "val_cases.txt")
    open(vp, "w").write("\n".join(vals) + ("\n" if vals else ""))
    run_runner(vp, os.path.join(work, "val_out.txt"))
    outs = open(os.path.join(work, "val_out.txt")).read().splitlines()
    bad = [idx[j] for j, o in enumerate(outs) if o.strip() != "val 1 wf 1"]
    st["validated_impl_tapes"] = len(outs) - len(bad)
    st["validator_rejects"] = len(bad)
    return [("validator", k, "Validate.check_alloc / SsaWf.ssa_wf rejects the implementation's tapes") for k in bad]


def _tape_of(sec, key):
    """'s1 <tape> cc k oc j' -> (tape string, cc)"""
    body = sec[len(key) + 1:]
    tape, rest = body.split(" cc ")
    return tape, int(rest.split()[0])


def post_validate_simplify(work, st):
    """Runs the two kernel-verified validators on what the implementation printed:
    Validate.check_alloc on every (SSA tape, register tape) pair and
    SimplifyValidate.check_simplify on every (parent, trace, child) triple."""
    lines = open(os.path.join(work, "impl.txt")).read().splitlines()
    reqs, owners = [], []
    for k, ln in enumerate(lines):
        s = split_sections(ln)
        pairs = [("p", "pr"), ("s1", "r1"), ("s2", "r2")]
        for a, b in pairs:
            if a in s and b in s and " cc " in s[a]:
                tape, _ = _tape_of(s[a], a)
                reg = s[b].split(" ", 2)[2]
                reqs.append(f"val {tape} {reg}"); owners.append((k, "val 1 wf 1", f"{a}/{b}"))
        for parent, tr, child in [("p", "tr", "s1"), ("s1", "tr2", "s2")]:
            if parent in s and tr in s and child in s and " cc " in s[parent] and " cc " in s[child]:
                pt, cc = _tape_of(s[parent], parent)
                ct, _ = _tape_of(s[child], child)
                t = s[tr][len(tr) + 1:]
                if t.strip() == "none":
                    t = f"{cc} " + " ".join(["3"] * cc)
                reqs.append(f"sval {pt} {t.strip()} {ct}"); owners.append((k, "sval 1 wf 1", f"{parent}->{child}"))
    vp = os.path.join(work, "val_cases.txt")
    open(vp, "w").write("\n".join(reqs) + ("\n" if reqs else ""))
    run_runner(vp, os.path.join(work, "val_out.txt"))
    outs = open(os.path.join(work, "val_out.txt")).read().splitlines()
    bad = [(owners[j], o) for j, o in enumerate(outs) if o.strip() != owners[j][1]]
    st["validator_requests"] = len(outs)
    st["validator_rejects"] = len(bad)
    # The simplification validator is sound, not complete (it matches child operations greedily).  A child tape it cannot
    # follow is still vouched for when it is, operation for operation, the tape the MODEL's simplify produced for the same
    # parent and trace: that function is proved correct (SimplifyProof.fsimplify_correct).  Only the others are reported.
    mpath = os.path.join(work, "model.txt")
    mlines = open(mpath).read().splitlines() if os.path.exists(mpath) else []
    out, vouched = [], 0
    for (k, _, what), o in bad:
        child = what.split("->")[-1] if "->" in what else None
        if child and k < len(mlines):
            ms, is_ = split_sections(mlines[k]), split_sections(lines[k])
            if child in ms and ms.get(child) == is_.get(child):
                vouched += 1
                continue
        out.append(("validator", k, f"verified validator rejects the implementation's {what}: {o.strip()}"))
    st["validator_rejects_vouched_by_proved_model_simplify"] = vouched
    return out


def post_validate_bytecode(work, st):
    """Decodes the implementation's own bytecode words with the documentation-only
    decoder and runs the verified equivalence check against its register tape,
    plus the bounds check."""
    lines = open(os.path.join(work, "impl.txt")).read().splitlines()
    reqs, idx = [], []
    for k, ln in enumerate(lines):
        s = split_sections(ln)
        if "reg" in s and "bc" in s:
            reg = s["reg"].split(" ", 2)[2]
            bc = s["bc"].split(" ")
            reqs.append(f"bcval {reg} {bc[1]} {bc[2]} {' '.join(bc[3:])}"); idx.append(k)
    vp = os.path.join(work, "val_cases.txt")
    open(vp, "w").write("\n".join(reqs) + ("\n" if reqs else ""))
    run_runner(vp, os.path.join(work, "val_out.txt"))
    outs = open(os.path.join(work, "val_out.txt")).read().splitlines()
    bad = [(idx[j], o) for j, o in enumerate(outs) if o.strip() != "bcval 1 bounds 1"]
    st["validator_requests"] = len(outs)
    st["validator_rejects"] = len(bad)
    return [("validator", k, f"verified bytecode check fails on the implementation's words: {o.strip()}") for k, o in bad]


# ------------------------------------------------------------------ generic flow
def run_property(prop, sp, tier, seed, replay):
    t0 = time.time()
    work = os.path.join(WORK, prop)
    shutil.rmtree(work, ignore_errors=True)
    os.makedirs(work, exist_ok=True)
    broken = []      # (kind, detail): proof obligations / correspondences that no longer check
    st = {}

    # 1. translator
    ok, msg = gen_tables()
    if not ok:
        broken.append(("translator", "tools/gen_tables.py: " + msg.strip()[-600:]))
    # 2. proofs
    ok, out = coq_build(sp.get("vo_targets"))
    coq_ok = ok
    if not ok:
        m = re.search(r'File "([^"]+)", line (\d+).*?\n(Error:.*?)(?:\n\n|\Z)', out, re.S)
        where = f"{m.group(1)}:{m.group(2)} {m.group(3)[:300]}" if m else out[-500:]
        broken.append(("proof", "coq build failed: " + where))
        # a generated table contradicting the model stops the build; still build what can be built
        coq_build(["-k"] + (sp.get("vo_targets") or []))
    audit = dict(ok=False, theorems=[], axioms={}, problems=["not run"])
    if coq_ok:
        audit = coq_audit(prop)
        for p in audit["problems"]:
            broken.append(("audit", p))
    # 3. executables
    ok_r, out_r = build_runner()
    if not ok_r:
        broken.append(("runner", "extraction/runner build failed: " + out_r[-400:]))
    ok_h, out_h = build_harness()
    if not ok_h:
        broken.append(("harness", "harness no longer builds against /repo: " + out_h[-800:]))

    fails = []       # oracle failures: (case index, text)
    diffs = []
    stats = {}
    count = sp["count"][tier]
    if ok_h:
        cmd = [harness_bin(), sp["cmd"], str(seed), str(count), work] + sp.get("args", {}).get(tier, [])
        rc, out = sh(cmd, timeout=sp.get("timeout", {}).get(tier, 1500))
        if rc not in (0, 1):
            broken.append(("harness-run", f"harness exited {rc}: {out[-600:]}"))
        try:
            stats = json.load(open(os.path.join(work, "stats.json")))
        except Exception as ex:
            stats = {}
            if rc in (0, 1):
                broken.append(("harness-run", f"no stats.json: {ex}"))
        op = os.path.join(work, "oracle.txt")
        if os.path.exists(op):
            for ln in open(op):
                ln = ln.strip()
                if ln.startswith("FAIL"):
                    m = re.search(r"case=(\d+)", ln)
                    fails.append((int(m.group(1)) if m else -1, ln))
        # 4. correspondence
        if ok_r and os.path.exists(os.path.join(work, "cases.txt")):
            run_runner(os.path.join(work, "cases.txt"), os.path.join(work, "model.txt"))
            diffs = diff_lines(os.path.join(work, "model.txt"), os.path.join(work, "impl.txt"))
            # advisory sections: recorded, never a broken correspondence by themselves
            soft = set(sp.get("soft_sections", []))
            if soft:
                st["advisory_section_mismatches"] = sum(1 for _, ns in diffs if set(ns) <= soft)
                diffs = [(k, [n for n in ns if n not in soft]) for k, ns in diffs if not set(ns) <= soft]
            for fn in sp.get("post", []):
                for kind, k, detail in fn(work, st):
                    broken.append((kind, f"case {k}: {detail}"))
                    diffs.append((k, [kind]))
    # 5. decide
    known = load_known(prop)
    classify = sp.get("classify", lambda ln: "")
    new_fails, known_hits = [], {}
    for k, ln in fails:
        key = classify(ln)
        hit = [kk for kk, _ in known if kk == key]
        if hit:
            known_hits.setdefault(hit[0], []).append((k, ln))
        else:
            new_fails.append((k, ln))
    for kk, what in known:
        if kk in known_hits:
            print(f"KNOWN-FINDING: property={prop} {what} (key={kk}, {len(known_hits[kk])} cases this run)")
    # diffs explained by a known finding (same case index) are not new
    known_cases = {k for v in known_hits.values() for k, _ in v}
    diffs_new = [(k, n) for k, n in diffs if k not in known_cases]
    if diffs_new:
        secs = sorted({n for _, ns in diffs_new for n in ns})
        broken.append(("correspondence", f"model and implementation differ on {len(diffs_new)} of {stats.get('cases', '?')} cases; sections {secs}; first case index {diffs_new[0][0]}"))

    violation = None
    cases = open(os.path.join(work, "cases.txt")).read().splitlines() if os.path.exists(os.path.join(work, "cases.txt")) else []
    impls = open(os.path.join(work, "impl.txt")).read().splitlines() if os.path.exists(os.path.join(work, "impl.txt")) else []
    models = open(os.path.join(work, "model.txt")).read().splitlines() if os.path.exists(os.path.join(work, "model.txt")) else []

    def pick_smallest(idxs):
        idxs = [k for k in idxs if 0 <= k < len(cases)]
        return min(idxs, key=lambda k: len(cases[k])) if idxs else None

    base = dict(property=prop, seed=seed, tier=tier, count=count, harness_cmd=sp["cmd"],
                args=sp.get("args", {}).get(tier, []))
    if new_fails:
        k = pick_smallest([k for k, _ in new_fails])
        ln = next((l for kk, l in new_fails if kk == k), new_fails[0][1])
        payload = dict(base, kind="failing-input", case_index=k, oracle=ln,
                       case=cases[k] if k is not None and k < len(cases) else None,
                       impl=impls[k] if k is not None and k < len(impls) else None,
                       model=models[k] if k is not None and k < len(models) else None,
                       broken=[f"{a}: {b}" for a, b in broken], failing_cases=len(new_fails))
        violation = (write_replay(prop, payload), "")
    elif broken and sp.get("diff_is_failing_input") and diffs_new and all(a == "correspondence" for a, _ in broken):
        # the model IS the statement of the property for this check (its output is what the property
        # says the implementation must produce): an input on which they differ is a failing input
        k = pick_smallest([k for k, _ in diffs_new])
        payload = dict(base, kind="failing-input", case_index=k,
                       oracle="the implementation's result differs from the result the proved model gives for this input",
                       case=cases[k] if k is not None else None,
                       impl=impls[k] if k is not None and k < len(impls) else None,
                       model=models[k] if k is not None and k < len(models) else None,
                       broken=[f"{a}: {b}" for a, b in broken], failing_cases=len(diffs_new))
        violation = (write_replay(prop, payload), "")
    elif broken:
        k = pick_smallest([k for k, _ in diffs_new])
        payload = dict(base, kind="no-failing-input-found",
                       broken=[f"{a}: {b}" for a, b in broken], case_index=k,
                       case=cases[k] if k is not None else None,
                       impl=impls[k] if k is not None and k < len(impls) else None,
                       model=models[k] if k is not None and k < len(models) else None,
                       note="the theorem or correspondence named under 'broken' no longer checks; the property oracle found no failing input on the explored cases")
        violation = (write_replay(prop, payload), " no-failing-input-found")

    # 6. replay mode: report on the recorded case only
    if replay:
        rp = json.load(open(replay))
        k = rp.get("case_index")
        still = [ln for kk, ln in fails if kk == k] or [b for b in broken]
        if still:
            print(f"replay: case {k} still fails: {str(still[0])[:300]}")
        else:
            print(f"replay: case {k} no longer fails")

    # 7. evidence
    names = audit["theorems"]
    discharged = len(names) if (coq_ok and audit["ok"]) else 0
    cov = dict(
        obligations=max(1, len(names)), discharged=discharged,
        checker_cmd=f"make -C coq -j16 (full .vo) && coqc audit (Print Assumptions of {len(names)} theorems in props/{prop}.v) ; ./check {prop}",
        trusted_base=TRUSTED_BASE + sp.get("trusted_extra", []),
        theorems=names, axioms_per_theorem=audit["axioms"],
        evaluations=int(stats.get("cases", 0)), distinct_nontrivial=int(stats.get("distinct_nontrivial", 0)),
        rule=sp.get("rule", ""), samples=stats.get("samples", [])[:3] or ["(none: harness did not run)"],
        correspondence_cases=len(cases), correspondence_diffs=len(diffs), oracle_fails=len(fails),
        known_finding_hits={k: len(v) for k, v in known_hits.items()},
        broken=[f"{a}: {b}" for a, b in broken], harness_stats={k: v for k, v in stats.items() if k != "samples"},
        extra=st,
    )
    level = sp.get("level", "proof")
    write_evidence(prop, tier, seed, level, cov, time.time() - t0, 1 if violation else 0,
                   assumptions=sp.get("assumptions", []))
    log(f"{prop} tier={tier} seed={seed}: theorems={len(names)} discharged={discharged} cases={len(cases)} "
        f"diffs={len(diffs)} oracle_fails={len(fails)} broken={len(broken)} wall={time.time()-t0:.1f}s")
    for a, b in broken:
        log(f"  broken {a}: {b[:400]}")
    if violation:
        print(f"VIOLATION property={prop} replay={violation[0]}{violation[1]}")
        return 1
    return 0


# ------------------------------------------------------------------ specs
def classify_default(ln):
    m = re.search(r"kind=(\S+)", ln)
    return m.group(1) if m else ""


def classify_backend(ln):
    k = re.search(r"kind=(\S+)", ln)
    b = re.search(r"backend=(\S+)", ln)
    return (k.group(1) if k else "") + ("-" + b.group(1) if b else "")


spec("C01",
     cmd="c01", count=dict(quick=600, thorough=20000),
     args=dict(quick=["1,2,3,4,6,255"], thorough=["1,2,3,4,5,6,8,12,16,32,64,255"]),
     vo_targets=["props/C01.vo"],
     post=[post_validate_impl],
     level="proof",
     rule="random DAGs through the Context API (1-120 ops, 1-8 outputs incl. constant/duplicate roots, 0-6 free vars), one register budget per case, 4 points each; distinct_nontrivial = distinct SSA tapes with more than 3 ops",
     classify=classify_default,
     assumptions=["memory slot indices stay below u32::MAX (UNASSIGNED sentinel is modelled as None)",
                  "points where a NaN reaches rand/mix are skipped in the model comparison (NaN payload bits are not modelled); they stay in the property oracle"],
     )

spec("C04",
     cmd="c04", count=dict(quick=500, thorough=10000),
     args=dict(quick=["jit"], thorough=["jit"]),
     vo_targets=["props/C04.vo"],
     post=[post_validate_simplify],
     level="proof",
     rule="random choice-heavy DAGs (1-80 ops, 1-4 outputs, min/max/and/or with shared operands and immediates), backend in {interpreter at budgets (N,M) from 15 pairs, x86_64 JIT}, trace from the point or the interval tracing evaluator, child simplified again with its own trace; distinct_nontrivial = distinct parent SSA tapes",
     classify=classify_default,
     assumptions=["JIT interval traces are judged against the model's (entry equal or the more conservative Both), JIT interval values are not compared with the model",
                  "value equality on the traced box is sampled by the oracle at box corners and interior points (the theorem covers all points where the trace is valid)"],
     )

spec("C20",
     cmd="c20", count=dict(quick=400, thorough=10000),
     vo_targets=["props/C20.vo"],
     level="proof",
     rule="DAGs with 0-220+ choice clauses of all four kinds (RegReg and RegImm forms), 1-4 outputs; interpreter (N=255) and JIT point + interval tracing evaluators on one point and one box; float/grad slice lengths {0,1,3,7,8,9,15,16,17,33}; distinct_nontrivial = distinct arenas with at least 2 choice clauses; the same tapes on tracing evaluators that live for the whole run (another box / point first) must give a fresh evaluator's trace",
     classify=classify_default,
     assumptions=["JIT interval trace entries may be the more conservative Both relative to the model's (its interval arithmetic may be wider); JIT point traces must equal the interpreter's"],
     )

spec("C06",
     cmd="c06", count=dict(quick=220, thorough=4000),
     vo_targets=["props/C06.vo"],
     level="proof",
     rule="case 0: the bundled hi.vm model plus the corpus of tile-size lists the constructor must reject or render ([0], [8,0], [1], [5]); then 2D CSG of circles / rectangles / rotated shapes (60%) or random expressions (choice-heavy 60%, up to 30 operations); image sizes 1..96 per axis (non-square, 95% not multiples of the root tile), valid tile-size lists of 1..4 levels with factors 2,3,4,8 and last size 1,2,3,4,5,8, view transforms (identity / scale / translate+scale / rotate+scale), slice height 0 or random, pixel-perfect 35%, interpreter and JIT, no pool / global pool / custom pools of 1..8 threads; every pixel of every image is compared with operation-by-operation evaluation at its sample position (value bits in pixel-perfect mode, inside() otherwise; a Fill on the wrong side counts unless the value is within 1e-4 of zero relative to the largest intermediate); images of at most 1600 pixels are also rendered by the f32 instance of the Coq model and compared pixel for pixel including Fill depths; distinct_nontrivial = distinct configurations; every third case also renders with the 3-register interpreter; case 1 renders x + NaN for all 256 payload classes of the NaN (a NaN value is a value pixel, never a fill, never inside)",
     classify=classify_backend,
     assumptions=["the theorems take interval enclosure (C03) and value preservation under simplification (C04) as hypotheses about the evaluators; their f32 instance is validated by the bit-exact replay",
                  "JIT images are judged by the oracle only (its interval arithmetic may legitimately be wider, giving different Fill decisions)"],
     )

spec("C07",
     cmd="c07", count=dict(quick=120, thorough=3000),
     vo_targets=["props/C07.vo"],
     level="proof",
     rule="3D CSG of spheres / boxes / scaled spheres (70%) or random expressions; voxel grids 1..40 per axis (width != height != depth, 77% with depth not a multiple of the root tile), valid tile-size lists of 1..4 levels (root <= 64), view transforms (identity / scale / translate+scale / Euler rotation+scale), interpreter and JIT, no pool / global / custom pools; brute force over every voxel of every column, operation by operation: depth = 1 + highest negative voxel (0 if none); columns with a negative voxel above the grid within one root tile or a NaN are outside the claim; a mismatch counts unless some voxel of the column is within 1e-4 of zero; normals of surface pixels are compared with the gradient evaluator at the hit voxel (2e-3 relative; a report needs more than 2% of the surface pixels); grids of at most 12000 voxels are also rendered by the f32 instance of the Coq model, depth and normal compared bit for bit; distinct_nontrivial = distinct configurations",
     classify=classify_backend,
     assumptions=["as C06; the gradient model is Grad.v (C05)"],
     )

spec("C08",
     cmd="c08", count=dict(quick=150, thorough=1500),
     vo_targets=["props/C08.vo"],
     level="proof",
     rule="cases 0..2: unions of eight small balls on grid corners arranged so that two face-adjacent leaf cells share an ambiguous face (corner masks 185 over 155; the configuration the Coq model of dc_edge proves non-manifold); cases 3, 4: a 1.0 x 0.6 x 0.8 box rotated by 0.3 about z and 0.5 about x at depths 3 and 6 (a two-sheet leaf next to collapsible cells); then random 3D CSG (unions / intersections / differences / blends of spheres, boxes, scaled spheres, expanded-polynomial balls, exact box distances; nesting 0..3) with the surface inside (-1,1)^3, one case in five an oblique polyhedral shape (box, slab, slotted box, crossing boxes, box clipped by a ball) through a pure rotation, one in four with the field multiplied by a power of ten 1e-4..1e6 (the unscaled mesh is built too and must have the same volume and manifoldness); octree depth 1..6, world-to-model identity / scale 1..1.5 / scale 1.8 with an Euler rotation / perspective, no pool / global / custom pools, interpreter and JIT; every mesh is written out and judged by the extracted verified checker (closed 2-manifold, sign of the exact signed volume) which must agree with the harness; oracle: finite vertices, no repeated index, every directed edge once with its reverse once, signed volume not negative beyond the tolerance, |mesh volume - volume sampled on a 40^3 (depth >= 5: 128^3) grid| <= c1 A cell + 2 cell^3 + sampling error where A is the smaller of the mesh's area and 1.25 times the area bound counted from sign changes between neighbouring samples (so a mesh thrown out of the region cannot excuse itself), and for meshes of >= 200 triangles a majority of triangle normals pointing from inside to outside; an offending edge is the recorded finding only when (through the leaves hook) both ends are the single vertices of two face-adjacent leaves of the SAME depth whose shared face has alternating corner signs; distinct_nontrivial = distinct configurations; every cell vertex lies within one cell size of its own leaf (the guarantee proved in QefBound.v for the repaired placement, measured through the leaves hook); one case in four lives away from the origin (world_to_model carries a translation of up to 8 per axis, the shape moved along); case 5: two balls on a face diagonal of one leaf cell (a two-vertex leaf) in a model at (10,10,10) at half scale; every vertex lies within one cell size of the meshing region",
     classify=classify_backend,
     assumptions=["manifoldness of the dual walk for ALL octrees is not proved: the checker decides it per mesh; the for-all content is the table theorems (all 256 masks), the fan orientation, and the checker's soundness and completeness",
                  "leaf vertices are not clamped to their cells, so features of about one cell may come out inverted: volume and orientation are judged beyond the sampling resolution only"],
     )

spec("C09",
     cmd="c09", count=dict(quick=160, thorough=4000),
     vo_targets=["props/C09.vo"],
     level="proof",
     rule="cases cycle through 2D render / 3D render / mesh / one tape evaluated from 12 threads at once, interpreter or JIT at random; each workload: reference without a pool (twice), three custom pools out of {1,2,3,4,5,8,12,16} threads run twice each with the schedule-point hook injecting yields and sleeps of up to 150us keyed to the task / poll number (different seed per run), the global pool, then cancellation injected through the hook at exact poll numbers {1, middle, last, random} with no pool / 2 / 4 threads, cancellation before the start, and a never-cancelled run under jitter; results compared bit for bit (images) or as sorted sets of oriented triangles over vertex bit patterns (meshes); task counts (raster root tiles after TileSizesRef trimming, octree tasks after the breadth-first expansion) and one-poll-per-tile are compared with the Coq model; distinct_nontrivial = cases (each a fresh shape and configuration); a quarter of the interpreter cases use the 3-register interpreter; meshing runs under identity / scale / translation-and-anisotropic-scale transforms with a share of flat polyhedral shapes; every eighth case checks the row fan-out of Image::apply_effect (heights 1..140, pools of 1, 2, 3, 5, 8, 16 threads) against the pool-less run; case 0: max((x y)^2 + ((x + x) + (x - y)), x) at 256x256, pixel-perfect, 3-register interpreter (its simplified tape is longer than the parent)",
     classify=classify_backend,
     assumptions=["data races inside a task, rayon's own correctness and the memory ordering of the relaxed cancel flag are outside the model; they are exercised by the perturbed differential runs only",
                  "a late-observed flag only moves the cancellation moment later in the time order, which the theorems quantify over"],
     )

spec("C10",
     cmd="c10", count=dict(quick=1500, thorough=12000),
     vo_targets=["props/C10.vo"],
     level="proof",
     rule="random histories (5-40 steps) over 3-6 functions of different shapes with ONE long-lived point/interval/float-slice/grad-slice evaluator, one workspace, recycled function storage and recycled tape storage (JIT: Mmap), steps in {point, interval, slice(n), grad(n), simplify, recycle+rebuild}; every step is compared bit-for-bit with a twin using fresh objects; backends interpreter N=4, N=255 and x86_64 JIT; evaluations = histories, distinct_nontrivial = histories (each has its own random functions); half of the functions carry an operation with the same (early, by then spilled) node on both sides, read once more at the end; budgets 3, 4, 255 and the JIT; every history opens with trace-then-simplify on each function in turn",
     classify=classify_default,
     assumptions=["the history check is an oracle run on the implementation (differential against fresh objects); the theorems cover reset = new and stale-content independence of the modelled evaluators"],
     )

spec("C14",
     cmd="c14", count=dict(quick=1500, thorough=60000),
     vo_targets=["props/C14.vo"],
     level="proof",
     rule="single-root expressions (up to 40 operations, choice-heavy half of the time) over a random subset of X, Y, Z and 0..24 free variables created in one random order, folded into the root in another and supplied in a third; supplied table exact / with 1..4 extra variables / with one variable missing; no transform / affine / projective 4x4 matrices (incl. w = 0); VM point evaluation through ShapeTracingEval::eval_raw: the tape's variable order, the transformed position and the result (or the missing-variable error) must equal the Coq model (flatten + allocate + slot filling in the implementation's own map iteration order + tape run) bit for bit; oracle: direct operation-by-operation evaluation with an explicit binding, JIT point, float-slice with scalar variables and with per-sample variable arrays, gradient value lane, degenerate-box interval (VM and JIT), and the shape simplified on a box around the point (same value, no variable renumbered); distinct_nontrivial = distinct case lines; the same evaluation on evaluators that live for the whole run (every earlier shape dropped) must equal a fresh evaluator's; one case in six has a variable missing AND 28..40 unrelated extras; Shape::bind is compared with the model of ShapeVars::check over the map's own iteration order (accepted exactly when complete, which variable is named); the many-point and gradient shape evaluators live for the whole run too and are called with 1..19 points, the count changing from case to case",
     classify=classify_backend,
     assumptions=["the sign of a zero result is not compared across evaluator kinds (min/max zero sign is code-generation dependent, see C02)",
                  "projective transforms with w = 0 at the point are compared for the point evaluator only (no transformed position exists)"],
     )

spec("C15",
     cmd="c15", count=dict(quick=500, thorough=10000),
     vo_targets=["props/C15.vo"],
     post=[post_validate_bytecode],
     level="proof",
     rule="random DAGs (1-100 ops, 1-4 outputs, 0-5 free vars) at register budgets {3,4,8,255} (small budgets force Load/Store = Mem ops), 3 points each; distinct_nontrivial = distinct bytecode word streams; history: storage that was serialized as part of another function is recycled into a simplification, whose bytecode must equal the one from fresh storage",
     classify=classify_default,
     assumptions=["the Rust documentation-only interpreter (oracle) and the Coq decoder are both written from the module docs: opcode table from iter_ops / regenerated enum order"],
     )


spec("C11",
     cmd="c11", count=dict(quick=1500, thorough=30000),
     vo_targets=["props/C11.vo"],
     level="proof",
     rule="60% overflow-prone compositions (square/mul by 1e30/exp/div/recip/ln/sqrt/tan/mod/atan2 chains), 40% general DAGs; points and boxes with finite coordinates up to f32::MAX; every evaluator kind (point, interval, float slice, grad slice, shape-level with a transform matrix) of interpreter and JIT in child processes; a malformed-argument round every 10th case; interpreter interval results compared with the model (value or panic); distinct_nontrivial = distinct arenas; a trace that comes back contains no Unknown and simplify accepts it; an empty batch on fresh bulk evaluators gives one empty result per output (function level and shape wrapper); overflow expressions with infinite constants added / subtracted / multiplied; the shape wrapper's X, Y, Z slices with one of the three of another length (an error value, never a panic)",
     classify=classify_backend,
     assumptions=["a fault or abort in JIT code is observed through the child process exit status",
                  "the interval totality theorems over the idealised (unrounded) arithmetic are in IntervalSound (see C03); the f32 instance is tied by correspondence"],
     )

spec("C03",
     cmd="c03", count=dict(quick=1500, thorough=30000),
     vo_targets=["props/C03.vo"],
     level="proof",
     rule="random DAGs (1-40 ops, every opcode; 15% of cases include the bit-hash opcodes rand/mix and are not diffed against the model) with EVERY non-constant node exported as an output; boxes: degenerate, tiny, wide, symmetric about zero, scaled by 1e-3..1e3 and up to 3e38; 8 sample points per box (both corners + interior/edges); interpreter and JIT; enclosure checked per node with 0 ulps slack for exact ops and 4 ulps for libm ops, only where the operands are themselves strictly inside their intervals (local obligation); transform matrices (translate / scale / affine / projective) checked at coordinate level; distinct_nontrivial = distinct arenas with > 2 exported nodes",
     classify=classify_backend,
     assumptions=["JIT interval results are only required to enclose (they may be wider than the interpreter's)",
                  "atan2 with both arguments zero is excluded as stated by the property",
                  "sign of a zero bound is not compared (f32::min/max return either zero)"],
     )

spec("C02",
     cmd="c02", count=dict(quick=600, thorough=12000),
     vo_targets=["props/C02.vo"],
     level="proof",
     rule="random DAGs (1-60 ops, every opcode, 0-5 free variables; chains and wide DAGs so that 12 JIT registers spill and libm calls interleave with live registers) with every non-constant node exported (last 40); 40 points per case drawn from tame values / 40% specials (NaN, +-0, +-inf, denormals, f32::MAX, pi multiples) / mixed magnitudes; JIT point evaluator and JIT float-slice evaluator for EVERY slice length 0..=35 (SIMD width 8) against the interpreter, caller slices placed against PROT_NONE guard pages (alternately at the start and at the end); child processes; distinct_nontrivial = distinct arenas; one case in six has 30..100 further variables, all read (displacements beyond one signed byte); rounding-edge and subnormal inputs; a difference in the sign of a zero is tolerated at every node computed from a min / max of opposite zeros and nowhere else",
     classify=classify_default,
     assumptions=["comparison rule = the property's: bit-identical, NaN matches NaN, min/max of two equal zeros may differ in sign (such points are then skipped downstream)",
                  "points where a NaN reaches rand/mix are skipped (NaN payloads feed the hash)",
                  "the x86_64 instruction sequences themselves are covered by correspondence, not by proof; aarch64 cannot run here"],
     )

spec("C05",
     cmd="c05", count=dict(quick=800, thorough=15000),
     vo_targets=["props/C05.vo"],
     level="proof",
     rule="random DAGs (1-30 ops, all opcodes except the bit-hash ones, every non-constant node exported), 4 points (3 tame, 1 with special values), unit-axis seeds on the first point and arbitrary non-unit seeds on the others; interpreter grad-slice results bit-for-bit against the model; per node: value lane vs point evaluator, and the f64 chain rule from the operand duals the evaluator itself reported (local obligation; skipped near ties / zeros / integers / poles / branch cuts and for magnitudes above 1e15), interpreter and JIT; Context::deriv of the last node evaluated at the point vs forward mode with unit seeds where the whole chain is differentiable; distinct_nontrivial = distinct arenas with > 2 exported nodes; the same tapes allocated into 3 and 4 registers must give the interpreter's rows bit for bit; for a box around the first point the function is simplified with its own interval trace (interpreter and JIT) and the gradient of the simplified function compared with the original's at that point (outputs whose original value is NaN left out); the transform step is also checked with seeds that are not the unit axes; the value lane of the JIT's gradient rows equals the interpreter's at all four points; one case in eight has 20..70 further variables",
     classify=classify_backend,
     assumptions=["tolerance 2e-4 relative to the magnitude of the chain-rule terms for derivative lanes, 1e-4 for values, 2e-3 for the symbolic derivative (evaluated in f32)",
                  "the derivative theorems over the reals (GradSound) are in progress; the theorem here covers the value lane for every tape"],
     )

spec("C12",
     cmd="c12", count=dict(quick=1000, thorough=20000),
     vo_targets=["props/C12.vo"],
     level="proof",
     rule="half of the cases: random sequences (5-70 calls) of Context constructor calls (var / constant from {0,-0,1,-1,2,0.5,inf,NaN,denormal,...} / every unary / every binary builder; operands recent, random, equal, occasionally out of range) — returned nodes and the whole arena compared with the Coq Context model; other half: random Trees (2-25 ops, shared subtrees, special constants) imported into a fresh Context — node and arena compared with the model, value compared with an independent operation-by-operation evaluation of the unrewritten tree at 4 assignments, dedup (import twice), import(export(n)) = n, Eq/Hash of equal trees; once per run a 10^6-deep tree is built, compared, hashed, imported, exported, remapped and dropped on a 256 KiB stack in a child process; distinct_nontrivial = distinct case lines",
     classify=classify_default,
     assumptions=["hash opcodes (rand/mix) are excluded from the generated expressions: folding them over a NaN constant depends on NaN payload bits, which the model does not carry"],
     )
spec("C13",
     cmd="c13", count=dict(quick=1000, thorough=20000),
     vo_targets=["props/C13.vo"],
     level="proof",
     rule="random Trees with 1-6 remaps (remap_xyz by arbitrary expressions, remap_affine by translations / non-uniform scales incl. negative and tiny (1e-4 .. 1e-8) / rotations incl. by 5e-8 rad / shears / general affine matrices; consecutive affines exercise the flattening; shared subtrees under several frames; free variables) imported into a fresh Context: node and arena compared with the Coq model of Context::import, the value compared with the substitution semantics evaluated directly on the tree at 4 points, and the matrix Tree::remap_affine stores after two consecutive calls compared bit for bit with the model's product (Expr.aff_mul, proved to be the 4x4 product in Affine4.v); distinct_nontrivial = distinct case lines",
     classify=classify_default,
     diff_is_failing_input=True,
     assumptions=["nested RemapAffine directly under RemapAffine cannot be built through the builder API (remap_affine flattens) and is not generated"],
     )

spec("C16",
     cmd="c16", count=dict(quick=900, thorough=20000),
     vo_targets=["props/C16.vo"],
     level="proof",
     rule="each of the 26 shapes / transforms of fidget-shapes plus the three named planes (the first 29 cases cover every kind once, then uniformly random), random centres / radii / offsets / angles (90, 45, -30, 180, 10, 270 and perturbed) / unit axes / scale factors incl. negative and non-uniform, inputs drawn from sphere / box / circle primitives; Tree::from(shape) imported into a Context is compared node-for-node with the Coq builder imported into the Context model (incl. the f32 matrix products of nested affine transforms); 24 sample points per case against closed-form f64 geometry: negative exactly inside, T(s)(p) = s(T^-1 p), set algebra for CSG, named planes; distinct_nontrivial = distinct case lines",
     classify=classify_default,
     assumptions=["rotation matrices come from nalgebra::Rotation3::new (passed to the model as data; compared with Rodrigues' formula by the oracle)",
                  "Blend is only checked where it must equal the union (radius 0 or shapes further apart than the radius)"],
     )

spec("C17",
     cmd="c17", count=dict(quick=2500, thorough=150000),
     vo_targets=["props/C17.vo", "theories/ScriptGenCheck.vo"],
     soft_sections=["cls"],
     diff_is_failing_input=True,
     level="proof",
     rule="first the call-form oracle on the engine alone: for each of the 26 shapes (3 rounds of random field values) the map form must agree with the chained / transform form (defaults omitted), reducers with 1..8 individual trees and with an array must agree with the array in a map, and the positional form in a shuffled order must agree with the map form; then scripts from the grammar: x y z, integer / float literals, + - * / % and unary minus with the number on either side, min max compare mix and or atan2 and the 15 unary functions in call and method spelling, remap with 2 / 3 axes, arrays of trees added to trees, comparisons (6% of cases), shape constructors chosen uniformly from the reflection table with each defaulted field present 60% of the time and a required field missing 4% of the time, in map form (keys shuffled, 4% an unknown key), chained transform form, or positional (field order or shuffled, call or method on the first argument); values: ints / floats, arrays or vecN(..) for vectors (vec3 from 2 or 3 components), strings / bare axes / axis-aligned arrays for axes, names or plane(axis, n) for planes, nested up to depth 4; rotation matrices for every axis / angle a rotate call can use are computed with nalgebra and passed to the model as data; the tree of engine().eval::<Tree>(script), or the fact that it is an error, must equal the Coq model's (the error class is compared too but only recorded: in a script with several faulty sub-expressions the one reported first depends on rhai's argument evaluation order); a 16-script corpus of documented forms and predicted surprises runs first; distinct_nontrivial = distinct scripts; vec2 objects for vec3 fields, nested arrays inside tree arrays; 60 let-substitution pairs (`let N = v; body` against body with (v) written for N, N ranging over ordinary names and the names of the built-in constants, also as a function parameter)",
     classify=classify_default,
     assumptions=["statements, let, loops, user functions, f64 libm on numbers and string formatting are outside the model (it answers 'outside the model' and the case is not compared)",
                  "the script text is printed by the harness from the same AST whose wire form the model parses; the model's own printer is proved to produce source for that AST but is not what the engine is fed"],
     )

spec("C18",
     cmd="c18", count=dict(quick=3000, thorough=120000),
     vo_targets=["props/C18.vo"],
     level="proof",
     rule="event sequences of 3..14 calls alternating Canvas2 / Canvas3: immediate-mode interact (cursor absent / hovering / dragging, pan or rotate, with and without scroll, size changes), begin_drag / drag / end_drag (idle and active), zoom about a cursor position or the centre, resize; image sizes 1..2000 (powers of two, tiny, arbitrary), cursor positions on and off screen, scroll 0 / multiples of 100 / arbitrary / saturating (scale -> 0 or infinity); the f32 instance of the Coq model must reproduce centre, scale, yaw, pitch and every returned flag bit for bit after each event (centre and flags are not compared once yaw or pitch has been non-zero, nothing once a component is infinite or NaN); the oracle checks on the implementation: flag == (view changed), calls without a flag change nothing, a pure zoom keeps the model point under the cursor, a zoom-free pan drag keeps the grabbed point under the cursor, rotate drags leave centre and scale alone, pitch in [0,pi], |yaw| < 2pi, transform_point = T*Rz*Rx*S in f64; distinct_nontrivial = distinct event sequences",
     classify=classify_default,
     assumptions=["exp2f / fmodf / sinf / cosf come from the libm oracle (glibc), as in the implementation",
                  "nalgebra's homogeneous matrix products are modelled with their structurally-zero terms dropped (exact while every component is finite)"],
     )

spec("C19",
     cmd="c19", count=dict(quick=300, thorough=4000),
     vo_targets=["props/C19.vo"],
     level="proof",
     rule="consistent diagonally-dominant linear systems with n in {1..8,10,13,16,25,40} unknowns (half-integer solutions, integer coefficients, each equation over a different subset of the variables), every variable free / every variable fixed / a random 35% fixed at their true values, starts perturbed or exactly satisfied; interpreter and JIT; through the verif hook the Jacobian must equal the coefficient matrix exactly and the seed rows are compared with the Coq model's seed table; distinct_nontrivial = systems (each has fresh variables and random coefficients); a third of the systems have coefficients times 2^10 .. 2^25 and unknowns divided by it; 30% carry one or two parameters that occur in no equation (free ones must get a value, fixed ones must not); the f32 instance of the modelled exit test is evaluated on the hook's Jacobian / residuals at the start and must agree with solve() returning the start unchanged; every solve under a 5-minute watchdog; 8% of the rows of systems with 16 and more unknowns mention most of the unknowns",
     classify=classify_backend,
     assumptions=["convergence (residual <= 1e-3) is an observation on well-conditioned systems, not a theorem: the SVD / Levenberg-Marquardt core is abstract in the model"],
     )
