#!/usr/bin/env python3
"""Confirms seeded mutations in a scratch worktree of /repo and files them under /verif/seeded/.

usage: seed_confirm.py <PROP> [k ...]
  input : /verif/seeded/_incoming/<PROP>/<k>/{patch.diff, *.rs, where.txt, meta.json}
  output: /verif/seeded/<PROP>-<k>/{patch.diff, <demo>.rs, where.txt, meta.json}
For each mutation: the demonstration passes on the unchanged tree, fails with the patch, and the
existing workspace tests still pass with the patch (the known fidget-wgpu ssao_bias failure aside).
The scratch worktree (/tmp/wt_confirm) is created if missing and left in place for the next call;
remove it with `git -C /repo worktree remove --force /tmp/wt_confirm`."""
import json, os, re, shutil, subprocess, sys

WT = "/tmp/wt_confirm"
ENV = dict(os.environ, CARGO_NET_OFFLINE="true", CARGO_TARGET_DIR=WT + "/target")

def sh(cmd, cwd=WT, timeout=5400):
    p = subprocess.run(cmd, shell=True, cwd=cwd, env=ENV, capture_output=True, text=True, timeout=timeout)
    return p.returncode, p.stdout + p.stderr

def ensure_wt():
    if not os.path.isdir(WT):
        rc, out = sh(f"git -C /repo worktree add --detach {WT} HEAD", cwd="/")
        if rc: sys.exit(out)
    else:
        sh("git checkout -q --detach $(git -C /repo rev-parse HEAD)")
    sh("git checkout -- . && git clean -fdq -e target")

def main():
    prop = sys.argv[1]
    inc = os.environ.get("SEED_INCOMING", "/verif/seeded/_incoming") + f"/{prop}"
    ks = sys.argv[2:] or sorted(d for d in os.listdir(inc) if os.path.isdir(f"{inc}/{d}"))
    ensure_wt()
    for k in ks:
        d = f"{inc}/{k}"
        where = open(f"{d}/where.txt").read()
        m = re.search(r"([\w\-./]+/(?:tests|examples)/[\w\-]+\.rs)", where)
        pk = re.search(r"-p\s+([\w\-]+)", where)
        tn = re.search(r"--(test|example)\s+([\w\-]+)", where)
        demos = [f for f in os.listdir(d) if f.endswith(".rs")]
        rec = {"confirmed_in": WT, "base": subprocess.run("git -C /repo rev-parse --short HEAD", shell=True, capture_output=True, text=True).stdout.strip()}
        if not (m and pk and tn and len(demos) == 1):
            rec["error"] = f"cannot parse where.txt (dest={bool(m)} crate={bool(pk)} test={bool(tn)} demos={demos})"
            print(prop, k, rec["error"]); write(prop, k, d, rec, None); continue
        dest, crate, kind, name = m.group(1), pk.group(1), tn.group(1), tn.group(2)
        sh("git checkout -- . && git clean -fdq -e target")
        os.makedirs(os.path.dirname(f"{WT}/{dest}"), exist_ok=True)
        shutil.copy(f"{d}/{demos[0]}", f"{WT}/{dest}")
        run_demo = f"cargo {'test' if kind == 'test' else 'run'} -p {crate} --offline -j8 --{kind} {name}"
        rc0, out0 = sh(run_demo)
        rec["demo_on_unchanged_tree"] = "pass" if rc0 == 0 else "FAIL"
        rca, outa = sh(f"git apply {d}/patch.diff")
        rec["patch_applies"] = rca == 0
        if rca != 0:
            rec["error"] = "patch does not apply to the current tree: " + outa[-300:]
            print(prop, k, rec["error"]); write(prop, k, d, rec, dest); continue
        rc1, out1 = sh(run_demo)
        rec["demo_with_patch"] = "fail" if rc1 != 0 else "PASS"
        rec["demo_failure_excerpt"] = "\n".join(l for l in out1.splitlines() if "panicked" in l or "assert" in l.lower())[:600]
        os.remove(f"{WT}/{dest}")
        rc2, out2 = sh("nice -n 5 cargo test --workspace --no-fail-fast --offline -j8 -- --test-threads 8")
        failed = sorted(set(re.findall(r"^test (\S+) \.\.\. FAILED", out2, re.M)))
        ok = len(re.findall(r"^test result: ok", out2, re.M))
        # timing-based tests (tree_import_nocache, ...) flake when the machine is loaded: re-run failures alone
        retried = {}
        for tname in [f for f in failed if "ssao_bias" not in f]:
            short = tname.split("::")[-1]
            rcr, outr = sh(f"cargo test --workspace --offline -j8 {short} -- --test-threads 1")
            still = bool(re.search(r"^test \S*" + re.escape(short) + r" \.\.\. FAILED", outr, re.M))
            retried[tname] = "fails again" if still else "passes when re-run alone"
        rec["retried_alone"] = retried
        failed = [f for f in failed if retried.get(f) != "passes when re-run alone"]
        rec["existing_tests_with_patch"] = {"ok_targets": ok, "failed_tests": failed}
        rec["existing_tests_pass"] = all("ssao_bias" in f for f in failed) and ok >= 20 and "could not compile" not in out2
        sh("git checkout -- . && git clean -fdq -e target")
        rec["run"] = [run_demo + " (unchanged tree)", "git apply patch.diff", run_demo + " (patched)", "cargo test --workspace --no-fail-fast --offline (patched, demo removed)"]
        good = rec["demo_on_unchanged_tree"] == "pass" and rec["demo_with_patch"] == "fail" and rec["existing_tests_pass"]
        rec["kept"] = good
        print(prop, k, "CONFIRMED" if good else "REJECTED", json.dumps({x: rec[x] for x in ("demo_on_unchanged_tree", "demo_with_patch", "existing_tests_pass")}), failed)
        write(prop, k, d, rec, dest)

def write(prop, k, d, rec, dest):
    out = f"/verif/seeded/{prop}-" + os.environ.get("SEED_TAG", "") + f"{k}"
    os.makedirs(out, exist_ok=True)
    for f in os.listdir(d):
        if f.endswith(".log"): continue
        shutil.copy(f"{d}/{f}", f"{out}/{f}")
    meta = json.load(open(f"{d}/meta.json"))
    meta["breaks_property"] = prop
    meta["demo_path_in_repo"] = dest
    meta["confirmation"] = rec
    json.dump(meta, open(f"{out}/meta.json", "w"), indent=1)

if __name__ == "__main__":
    main()
