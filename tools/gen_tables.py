#!/usr/bin/env python3
"""Translator for the table-shaped parts of fidget: regenerates coq/gen/*.v from
/repo's current sources.  Output is byte-identical when nothing changed."""
import os, re, sys
ROOT = os.path.dirname(os.path.dirname(os.path.abspath(__file__)))
GEN = os.path.join(ROOT, "coq", "gen")
REPO = "/repo"

def write_if_changed(path, txt):
    if os.path.exists(path) and open(path).read() == txt:
        return
    open(path, "w").write(txt)

def main():
    os.makedirs(GEN, exist_ok=True)
    # placeholder until the op tables are wired
    return 0

if __name__ == "__main__":
    sys.exit(main())
