#!/usr/bin/env python3
"""Pretty-printer for wire tapes (debugging aid)."""
import sys, struct
UN=["neg","abs","recip","sqrt","square","floor","ceil","round","sin","cos","tan","asin","acos","atan","exp","ln","not","rand","copy"]
BI=["add","sub","mul","div","atan2","min","max","cmp","mod","and","or","mix"]
def f(b): return struct.unpack('<f', struct.pack('<I', b))[0]
def tape(toks, i):
    n=toks[i]; i+=1; ops=[]
    for _ in range(n):
        t=toks[i]
        if t==0: ops.append(f"out[{toks[i+2]}] = ${toks[i+1]}"); i+=3
        elif t==1: ops.append(f"${toks[i+1]} = in[{toks[i+2]}]"); i+=3
        elif t==2: ops.append(f"${toks[i+1]} = imm {f(toks[i+2])}"); i+=3
        elif t==3: ops.append(f"${toks[i+2]} = {UN[toks[i+1]]} ${toks[i+3]}"); i+=4
        elif t==4: ops.append(f"${toks[i+2]} = {BI[toks[i+1]]} ${toks[i+3]} ${toks[i+4]}"); i+=5
        elif t==5: ops.append(f"${toks[i+2]} = {BI[toks[i+1]]} ${toks[i+3]} #{f(toks[i+4])}"); i+=5
        elif t==6: ops.append(f"${toks[i+2]} = {BI[toks[i+1]]} #{f(toks[i+4])} ${toks[i+3]}"); i+=5
        elif t==7: ops.append(f"r{toks[i+1]} <- m{toks[i+2]}"); i+=3
        elif t==8: ops.append(f"m{toks[i+2]} <- r{toks[i+1]}"); i+=3
    return ops, i
if __name__=="__main__":
    toks=sys.stdin.read().split()
    cmd=toks[0]; toks=[int(x) for x in toks[1:]]
    if cmd=="sval":
        p,i=tape(toks,0); k=toks[i]; tr=toks[i+1:i+1+k]; c,_=tape(toks,i+1+k)
        print("PARENT (eval order):"); [print("  ",o) for o in reversed(p)]
        print("TRACE:",tr)
        print("CHILD (eval order):"); [print("  ",o) for o in reversed(c)]

def arena(toks, i=0):
    n=toks[i]; i+=1; out=[]
    for k in range(n):
        t=toks[i]
        if t==0: out.append(f"n{k} = var{toks[i+1]}"); i+=2
        elif t==1: out.append(f"n{k} = {f(toks[i+1])}"); i+=2
        elif t==2: out.append(f"n{k} = {UN[toks[i+1]]} n{toks[i+2]}"); i+=3
        elif t==3: out.append(f"n{k} = {BI[toks[i+1]]} n{toks[i+2]} n{toks[i+3]}"); i+=4
    return out, i
