"""Shared machinery for ./check: build steps, audit, model/impl diff, violation
handling, evidence.  No randomness here: every random choice is made by the Rust
harness from VERIF_SEED."""
import json, os, re, subprocess, sys, time, hashlib, glob

ROOT = os.path.dirname(os.path.dirname(os.path.abspath(__file__)))
COQ = os.path.join(ROOT, "coq")
EXTRACT = os.path.join(ROOT, "extract")
HARNESS = os.path.join(ROOT, "harness")
WORK = os.path.join(ROOT, "work")
NPROC = 16

ALLOWED_AXIOMS = [
    "ClassicalDedekindReals.sig_not_dec",
    "ClassicalDedekindReals.sig_forall_dec",
    "FunctionalExtensionality.functional_extensionality_dep",
    "Classical_Prop.classic",
]
FORBIDDEN = re.compile(
    r"\b(Admitted|admit|Axiom|Axioms|Parameter|Parameters|Conjecture|Conjectures|Abort All)\b"
    r"|Unset\s+Guard|bypass_check|type-in-type|impredicative-set|Admit\s+Obligations|Unset\s+Universe\s+Checking|Unset\s+Positivity")

TRUSTED_BASE = [
    "Coq 8.16.1 kernel (coqc); vm_compute only in finite-domain lemmas; no native_compute",
    "stdlib axioms reachable through Flocq/Reals only: " + ", ".join(ALLOWED_AXIOMS),
    "extraction with ExtrOcamlBasic only (Extract Inductive bool/option/unit/list/prod/sumbool/sumor; Extract Inlined Constant andb/orb); OCaml 4.13.1; extract/driver.ml parser+printer",
    "tools/gen_tables.py (translator for table-shaped Rust code)",
    "the Rust harness (generators, canonicalisation, property oracle) and the cfg(fidget_verif) hooks",
    "modelled, not verified: libm + rem_euclid (oracle table recorded from the running process), HashMap, rayon, nalgebra, dynasm/x86 encodings",
]


def sh(cmd, timeout=1200, cwd=None, env=None, stdin=None):
    e = dict(os.environ)
    e.setdefault("CARGO_NET_OFFLINE", "true")
    if env:
        e.update(env)
    try:
        p = subprocess.run(cmd, shell=isinstance(cmd, str), cwd=cwd, env=e, timeout=timeout,
                           stdout=subprocess.PIPE, stderr=subprocess.STDOUT, stdin=stdin)
        return p.returncode, p.stdout.decode("utf-8", "replace")
    except subprocess.TimeoutExpired as ex:
        out = (ex.stdout or b"").decode("utf-8", "replace")
        return 124, out + "\n[timeout]"


def log(msg):
    print(f"[check] {msg}", flush=True)


# ---------------------------------------------------------------- build steps
def gen_tables():
    """Regenerates coq/gen/*.v from /repo.  Returns (ok, message)."""
    rc, out = sh([sys.executable, os.path.join(ROOT, "tools", "gen_tables.py")], timeout=120)
    return rc == 0, out


def coq_makefile():
    mk = os.path.join(COQ, "Makefile")
    proj = os.path.join(COQ, "_CoqProject")
    if not os.path.exists(mk) or os.path.getmtime(mk) < os.path.getmtime(proj):
        sh("coq_makefile -f _CoqProject -o Makefile", cwd=COQ)


def extract_targets():
    """The compiled modules extract/Extract.v imports (they are not all dependencies of a props file)."""
    txt = open(os.path.join(EXTRACT, "Extract.v")).read()
    out = []
    for lib, mods in re.findall(r"From\s+(FV|FVGen)\s+Require\s+Import\s+([^.]*)\.", txt):
        for m in mods.split():
            out.append(("theories/" if lib == "FV" else "gen/") + m + ".vo")
    return out


def coq_build(targets=None, timeout=1500):
    """Full .vo build (never -vos).  targets: list of .vo paths relative to coq/ (the modules the
    extraction needs are always added)."""
    coq_makefile()
    if targets is not None:
        flags = [t for t in targets if t.startswith("-")]
        targets = flags + [t for t in targets if not t.startswith("-")] + [t for t in extract_targets() if t not in targets]
    cmd = ["make", f"-j{NPROC}"] + (targets or [])
    rc, out = sh(cmd, cwd=COQ, timeout=timeout)
    return rc == 0, out


def theorem_names(props_file):
    txt = open(props_file).read()
    return re.findall(r"^\s*(?:Theorem|Lemma|Corollary)\s+([A-Za-z0-9_']+)", txt, re.M)


def coq_audit(prop):
    """Forbidden-word grep over the whole development + Print Assumptions of every
    theorem in props/<prop>.v compared with the allowlist.
    Returns dict(ok, theorems, axioms, problems)."""
    problems = []
    for f in glob.glob(os.path.join(COQ, "theories", "*.v")) + glob.glob(os.path.join(COQ, "props", "*.v")) \
            + glob.glob(os.path.join(COQ, "gen", "*.v")):
        txt = open(f).read()
        # strip comments (non-nested is enough for our files; nested handled by loop)
        prev = None
        while prev != txt:
            prev = txt
            txt = re.sub(r"\(\*[^()]*?\*\)", "", txt, flags=re.S)
        txt = re.sub(r"\(\*.*?\*\)", "", txt, flags=re.S)
        m = FORBIDDEN.search(txt)
        if m:
            problems.append(f"forbidden token {m.group(0)!r} in {os.path.relpath(f, ROOT)}")
    pf = os.path.join(COQ, "props", f"{prop}.v")
    names = theorem_names(pf)
    os.makedirs(WORK, exist_ok=True)
    af = os.path.join(WORK, f"audit_{prop}.v")
    with open(af, "w") as fh:
        fh.write(f"From FVProps Require Import {prop}.\n")
        for n in names:
            fh.write(f'Goal True. idtac "BEGIN {n}". Abort.\nPrint Assumptions {n}.\n')
    rc, out = sh(["coqc", "-Q", "theories", "FV", "-Q", "gen", "FVGen", "-Q", "props", "FVProps", "-noglob", af],
                 cwd=COQ, timeout=600)
    for junk in glob.glob(os.path.join(WORK, f"audit_{prop}.*")) + glob.glob(os.path.join(WORK, f".audit_{prop}.*")):
        if not junk.endswith(".v"):
            try: os.remove(junk)
            except OSError: pass
    axioms = {}
    if rc != 0:
        problems.append("audit file failed to compile: " + out[-400:])
    else:
        blocks = re.split(r"BEGIN (\S+)\n", out)
        for i in range(1, len(blocks), 2):
            name, body = blocks[i], blocks[i + 1]
            if "Closed under the global context" in body:
                axioms[name] = []
                continue
            used = re.findall(r"^([A-Za-z_][A-Za-z0-9_.']*)\s*(?::|$)", body, re.M)
            used = [u for u in used if u not in ("Axioms",)]
            axioms[name] = used
            for u in used:
                if u not in ALLOWED_AXIOMS:
                    problems.append(f"theorem {name} depends on non-allowlisted assumption {u}")
        missing = [n for n in names if n not in axioms]
        if missing:
            problems.append(f"no Print Assumptions output for {missing}")
    return dict(ok=not problems, theorems=names, axioms=axioms, problems=problems)


def newest_mtime(paths):
    m = 0
    for p in paths:
        for f in glob.glob(p):
            m = max(m, os.path.getmtime(f))
    return m


def build_runner():
    runner = os.path.join(EXTRACT, "runner")
    src = newest_mtime([os.path.join(COQ, "theories", "*.vo"), os.path.join(COQ, "gen", "*.vo"),
                        os.path.join(EXTRACT, "*.ml"), os.path.join(EXTRACT, "Extract.v")])
    # model.ml is generated; exclude it from staleness so we do not loop
    gen_ml = os.path.join(EXTRACT, "model.ml")
    src_wo = newest_mtime([os.path.join(COQ, "theories", "*.vo"), os.path.join(COQ, "gen", "*.vo"),
                           os.path.join(EXTRACT, "driver.ml"), os.path.join(EXTRACT, "cmds.ml"),
                           os.path.join(EXTRACT, "main.ml"), os.path.join(EXTRACT, "Extract.v")])
    if os.path.exists(runner) and os.path.getmtime(runner) >= src_wo:
        return True, "up to date"
    rc, out = sh(["sh", os.path.join(EXTRACT, "build.sh")], timeout=600)
    return rc == 0, out


def build_harness():
    lock = os.path.join(HARNESS, "Cargo.lock")
    if not os.path.exists(lock):
        sh(["cp", "/repo/Cargo.lock", lock])
    rc, out = sh(["cargo", "build", "--offline", "--release"], cwd=HARNESS, timeout=3000)
    return rc == 0, out


def harness_bin():
    return os.path.join(HARNESS, "target", "release", "fv")


def run_runner(cases_path, out_path, shards=NPROC):
    """Runs the extracted model over a case file, sharded."""
    lines = open(cases_path).read().splitlines()
    if not lines:
        open(out_path, "w").write("")
        return True, ""
    shards = max(1, min(shards, len(lines)))
    procs = []
    per = (len(lines) + shards - 1) // shards
    tmpdir = os.path.dirname(out_path)
    for k in range(shards):
        chunk = lines[k * per:(k + 1) * per]
        if not chunk:
            continue
        ip = os.path.join(tmpdir, f".shard{k}.in")
        op = os.path.join(tmpdir, f".shard{k}.out")
        open(ip, "w").write("\n".join(chunk) + "\n")
        fi = open(ip); fo = open(op, "w")
        procs.append((subprocess.Popen(["sh", "-c", "ulimit -s unlimited 2>/dev/null; exec " + os.path.join(EXTRACT, "runner")],
                                       stdin=fi, stdout=fo, stderr=subprocess.STDOUT), ip, op, fi, fo))
    ok = True
    outs = []
    for p, ip, op, fi, fo in procs:
        try:
            rc = p.wait(timeout=3000)
        except subprocess.TimeoutExpired:
            p.kill(); rc = 124
        fi.close(); fo.close()
        ok = ok and rc == 0
        outs.append(open(op).read())
        os.remove(ip); os.remove(op)
    open(out_path, "w").write("".join(outs))
    return ok, ""


def split_sections(line):
    d = {}
    for sec in line.split(" | "):
        sec = sec.strip()
        if not sec:
            continue
        k = sec.split(" ", 1)[0]
        d[k] = sec
    return d


def diff_lines(model_path, impl_path):
    """Returns list of (index, [section names that differ])."""
    m = open(model_path).read().splitlines()
    i = open(impl_path).read().splitlines()
    diffs = []
    for k in range(max(len(m), len(i))):
        a = m[k].rstrip() if k < len(m) else "<missing>"
        b = i[k].rstrip() if k < len(i) else "<missing>"
        if a != b:
            sa, sb = split_sections(a), split_sections(b)
            # a model section equal to '?' means "outside the model": nothing to compare
            wild = lambda v: v is not None and v.split(' ', 1)[1:] == ['?']
            names = [n for n in sorted(set(sa) | set(sb)) if sa.get(n) != sb.get(n) and not wild(sa.get(n))]
            if not names and any(wild(v) for v in sa.values()):
                continue
            diffs.append((k, names or ["<line>"]))
    return diffs


# ---------------------------------------------------------------- known findings
def load_known(prop):
    path = os.path.join(ROOT, "KNOWN_FINDINGS.txt")
    out = []
    if os.path.exists(path):
        for ln in open(path):
            ln = ln.strip()
            m = re.match(r"known:\s+property=(\S+)\s+key=(\S+)\s+(.*)", ln)
            if m and m.group(1) == prop:
                out.append((m.group(2), m.group(3)))
    return out


# ---------------------------------------------------------------- evidence
def write_evidence(prop, tier, seed, level, coverage, wall, violations, assumptions=None):
    os.makedirs(os.path.join(ROOT, "evidence"), exist_ok=True)
    ev = dict(property_id=prop, tier=tier, seed=int(seed), level=level, coverage=coverage,
              assumptions=assumptions or [], wall_s=round(wall, 2), violations=int(violations))
    with open(os.path.join(ROOT, "evidence", f"{prop}.json"), "w") as fh:
        json.dump(ev, fh, indent=1)


def write_replay(prop, payload):
    os.makedirs(os.path.join(ROOT, "replays"), exist_ok=True)
    h = hashlib.sha1(json.dumps(payload, sort_keys=True).encode()).hexdigest()[:10]
    path = os.path.join(ROOT, "replays", f"{prop}_{h}.json")
    with open(path, "w") as fh:
        json.dump(payload, fh, indent=1)
    return path
