#!/usr/bin/env python3
"""gen_rhai_tables.py <repo> <out.v>

Regenerates gen/RhaiGen.v from the Rust sources of fidget: the shape signature table
(fidget-shapes/src/{lib,types}.rs, in `visit_shapes` order: builder name, field names, field
types, `#[facet(default = ..)]` values as f32 bit patterns), the operator / function names that
fidget-rhai/src/tree.rs registers together with the opcode each one builds (looked up in
fidget-core/src/context/tree.rs), the banned comparison operators, the constants of
fidget-rhai/src/constants.rs (f64 bit patterns), the order of the `value_from_dynamic` chain and of
the `Value` enum.  Anything the regexes do not recognise is a hard failure (exit status 1).
The output is plain data; theories/ScriptGenCheck.v proves it equal to the tables of the model."""
import re, struct, sys
from decimal import Decimal, getcontext


class ParseError(Exception):
    pass


def read(repo, rel):
    with open(f"{repo}/{rel}") as f:
        return f.read()


def strip_line_comments(s):
    return re.sub(r"//[^\n]*", "", s)


def f32_bits(x):
    return struct.unpack(">I", struct.pack(">f", float(x)))[0]


def f64_bits(x):
    return struct.unpack(">Q", struct.pack(">d", float(x)))[0]


def parse_float(tok):
    m = re.fullmatch(r"\s*(-?\d+(?:\.\d+)?)(?:_?f32|_?f64)?\s*", tok)
    if not m:
        raise ParseError(f"not a float literal: {tok!r}")
    return float(m.group(1))


def snake(name):
    """heck::ToSnakeCase for CamelCase identifiers (an uppercase run is one word, its last
    letter starts the next word when followed by lowercase)."""
    if not re.fullmatch(r"[A-Za-z][A-Za-z0-9]*", name):
        raise ParseError(f"unexpected type name {name!r}")
    words, cur = [], ""
    for i, ch in enumerate(name):
        if ch.isupper():
            prev_lower = i > 0 and (name[i - 1].islower() or name[i - 1].isdigit())
            next_lower = i + 1 < len(name) and name[i + 1].islower()
            if cur and (prev_lower or (next_lower and cur[-1].isupper())):
                words.append(cur)
                cur = ""
        cur += ch
    if cur:
        words.append(cur)
    return "_".join(w.lower() for w in words)


TYPES = {"f32": "GFloat", "Vec2": "GVec2", "Vec3": "GVec3", "Vec4": "GVec4", "Axis": "GAxis",
         "Plane": "GPlane", "Tree": "GTree", "Vec<Tree>": "GVecTree"}
VALUE_VARIANTS = {"Float": "GFloat", "Vec2": "GVec2", "Vec3": "GVec3", "Vec4": "GVec4", "Axis": "GAxis",
                  "Plane": "GPlane", "Tree": "GTree", "VecTree": "GVecTree"}
BOPS = {"Add": "BAdd", "Sub": "BSub", "Mul": "BMul", "Div": "BDiv", "Atan": "BAtan", "Min": "BMin", "Max": "BMax",
        "Compare": "BCompare", "Mod": "BMod", "And": "BAnd", "Or": "BOr", "Mix": "BMix"}
UOPS = {"Neg": "UNeg", "Abs": "UAbs", "Recip": "URecip", "Sqrt": "USqrt", "Square": "USquare", "Floor": "UFloor",
        "Ceil": "UCeil", "Round": "URound", "Sin": "USin", "Cos": "UCos", "Tan": "UTan", "Asin": "UAsin",
        "Acos": "UAcos", "Atan": "UAtan", "Exp": "UExp", "Ln": "ULn", "Not": "UNot", "Rand": "URand"}


# ------------------------------------------------------------------------------ shapes
def struct_fields(src, name):
    m = re.search(r"pub struct " + re.escape(name) + r"\s*\{(.*?)\n\}", src, re.S)
    if not m:
        return None
    body = m.group(1)
    fields, default = [], None
    for raw in body.split("\n"):
        line = raw.strip()
        if not line or line.startswith("///") or line.startswith("//"):
            continue
        ma = re.fullmatch(r"#\[facet\(default\s*=\s*(.*)\)\]", line)
        if ma:
            if default is not None:
                raise ParseError(f"{name}: two default attributes in a row")
            default = ma.group(1).strip()
            continue
        if line.startswith("#["):
            raise ParseError(f"{name}: unknown field attribute {line!r}")
        mf = re.fullmatch(r"pub (\w+)\s*:\s*([A-Za-z0-9_<>]+),", line)
        if not mf:
            raise ParseError(f"{name}: cannot parse field line {line!r}")
        fname, fty = mf.group(1), mf.group(2)
        if fty not in TYPES:
            raise ParseError(f"{name}.{fname}: unknown field type {fty}")
        fields.append((fname, fty, default))
        default = None
    if default is not None:
        raise ParseError(f"{name}: dangling default attribute")
    if not fields:
        raise ParseError(f"{name}: no fields")
    return fields


def axis_consts(types_src):
    out = {}
    for m in re.finditer(r"pub const ([XYZ]): Self = Axis\(Vec3 \{\s*x:\s*([^,]+),\s*y:\s*([^,]+),\s*z:\s*([^,]+),?\s*\}\);",
                         types_src):
        out[m.group(1)] = [parse_float(m.group(i)) for i in (2, 3, 4)]
    if sorted(out) != ["X", "Y", "Z"]:
        raise ParseError(f"types.rs: Axis::X/Y/Z not found ({sorted(out)})")
    return out


def plane_consts(types_src, axes):
    out = {}
    for m in re.finditer(r"pub const (XY|YZ|ZX): Self = Plane \{\s*axis:\s*Axis::([XYZ]),\s*offset:\s*([^,]+),?\s*\};",
                         types_src):
        out[m.group(1)] = axes[m.group(2)] + [parse_float(m.group(3))]
    if sorted(out) != ["XY", "YZ", "ZX"]:
        raise ParseError(f"types.rs: Plane::XY/YZ/ZX not found ({sorted(out)})")
    return out


def default_bits(expr, fty, axes, planes, where):
    def args(prefix, n):
        m = re.fullmatch(re.escape(prefix) + r"::new\((.*)\)", expr)
        if not m:
            raise ParseError(f"{where}: default {expr!r} is not {prefix}::new(..)")
        parts = [p for p in m.group(1).split(",") if p.strip()]
        if len(parts) != n:
            raise ParseError(f"{where}: {prefix}::new takes {n} arguments: {expr!r}")
        return [parse_float(p) for p in parts]
    if fty == "f32":
        vals = [parse_float(expr)]
    elif fty == "Vec2":
        vals = args("Vec2", 2)
    elif fty == "Vec3":
        vals = args("Vec3", 3)
    elif fty == "Axis":
        m = re.fullmatch(r"Axis::([XYZ])", expr)
        if not m:
            raise ParseError(f"{where}: unsupported Axis default {expr!r}")
        vals = axes[m.group(1)]
    elif fty == "Plane":
        m = re.fullmatch(r"Plane::(XY|YZ|ZX)", expr)
        if not m:
            raise ParseError(f"{where}: unsupported Plane default {expr!r}")
        vals = planes[m.group(1)]
    else:
        raise ParseError(f"{where}: a default on a field of type {fty} is not supported")
    return [f32_bits(v) for v in vals]


def gen_shapes(repo):
    lib = read(repo, "fidget-shapes/src/lib.rs")
    types = read(repo, "fidget-shapes/src/types.rs")
    axes = axis_consts(types)
    planes = plane_consts(types, axes)
    m = re.search(r"pub fn visit_shapes<V: ShapeVisitor>\(visitor: &mut V\) \{(.*?)\n\}", lib, re.S)
    if not m:
        raise ParseError("lib.rs: visit_shapes not found")
    body = strip_line_comments(m.group(1))
    names = re.findall(r"visitor\.visit::<(\w+)>\(\);", body)
    rest = re.sub(r"visitor\.visit::<\w+>\(\);", "", body).strip()
    if rest:
        raise ParseError(f"visit_shapes: unrecognised statements {rest!r}")
    if len(names) < 20:
        raise ParseError(f"visit_shapes: only {len(names)} shapes")
    out = []
    for n in names:
        fields = struct_fields(lib, n) or struct_fields(types, n)
        if fields is None:
            raise ParseError(f"struct {n} not found")
        fl = []
        for fname, fty, d in fields:
            bits = None if d is None else default_bits(d, fty, axes, planes, f"{n}.{fname}")
            fl.append((fname, TYPES[fty], bits))
        out.append((snake(n), fl))
    return out


# ------------------------------------------------------------------------------ tree.rs
def gen_tree(repo):
    src = strip_line_comments(read(repo, "fidget-rhai/src/tree.rs"))
    core = strip_line_comments(read(repo, "fidget-core/src/context/tree.rs"))
    bin_regs = re.findall(r'register_binary_fns!\("([^"]+)",\s*(\w+),\s*engine\);', src)
    un_regs = re.findall(r'register_unary_fns!\("([^"]+)",\s*(\w+),\s*engine\);', src)
    if len(bin_regs) < 5 or len(un_regs) < 5:
        raise ParseError("tree.rs: registrations not found")
    n_macro_calls = len(re.findall(r"register_(?:binary|unary)_fns!\(\"", src))
    if n_macro_calls != len(bin_regs) + len(un_regs):
        raise ParseError("tree.rs: a register_*_fns! call was not understood")
    # the registration macros themselves: both overloads for binary, one for unary
    if not re.search(r"\$engine\.register_fn\(\$op, \$name::tree_dyn\);\s*\$engine\.register_fn\(\$op, \$name::dyn_tree\);", src):
        raise ParseError("tree.rs: register_binary_fns! no longer registers tree_dyn then dyn_tree")
    if not re.search(r"\$engine\.register_fn\(\$op, \$name::tree\);", src):
        raise ParseError("tree.rs: register_unary_fns! changed")
    # operand order inside the generated functions
    if not re.search(r"pub fn tree_dyn\(\s*ctx: NativeCallContext,\s*a: Tree,\s*b: rhai::Dynamic,\s*\)[^{]*\{\s*"
                     r"let b = Tree::from_dynamic\(&ctx, b, None\)\?;\s*Ok\(a\.\$name\(b\)\)", src):
        raise ParseError("tree.rs: tree_dyn body changed")
    if not re.search(r"pub fn dyn_tree\(\s*ctx: NativeCallContext,\s*a: rhai::Dynamic,\s*b: Tree,\s*\)[^{]*\{\s*"
                     r"let a = Tree::from_dynamic\(&ctx, a, None\)\?;\s*Ok\(a\.\$name\(b\)\)", src):
        raise ParseError("tree.rs: dyn_tree body changed")
    if not re.search(r"pub fn tree\(\s*ctx: NativeCallContext,\s*a: rhai::Dynamic,\s*\)[^{]*\{\s*"
                     r"let a = Tree::from_dynamic\(&ctx, a, None\)\?;\s*Ok\(a\.\$name\(\)\)", src):
        raise ParseError("tree.rs: unary body changed")
    defined_bin = set(re.findall(r"define_binary_fns!\((\w+)", src))
    defined_un = set(re.findall(r"define_unary_fns!\((\w+)\)", src))
    # method name -> opcode, from fidget-core
    bmeth = dict(re.findall(r"pub fn (\w+)<T: Into<Tree>>\(&self, other: T\) -> Self \{\s*"
                            r"Self::op_binary\(self\.clone\(\), other\.into\(\), BinaryOpcode::(\w+)\)", core))
    for op, _assign, base, _afn in re.findall(r"impl_binary!\((\w+), (\w+), (\w+), (\w+)\);", core):
        bmeth[base] = op
    if not re.search(r"fn \$base_fn\(self, other: A\) -> Self \{\s*Self::op_binary\(self, other\.into\(\), BinaryOpcode::\$op\)", core):
        raise ParseError("core tree.rs: impl_binary! body changed")
    umeth = dict(re.findall(r"pub fn (\w+)\(&self\) -> (?:Self|Tree) \{\s*Self::op_unary\(self\.clone\(\), UnaryOpcode::(\w+)\)", core))
    binary, unary = [], []
    for op, fn in bin_regs:
        if fn not in defined_bin:
            raise ParseError(f"tree.rs: {fn} registered but not defined")
        if fn not in bmeth or bmeth[fn] not in BOPS:
            raise ParseError(f"core tree.rs: cannot find the opcode of Tree::{fn}")
        binary.append((op, BOPS[bmeth[fn]]))
    for op, fn in un_regs:
        if fn not in defined_un:
            raise ParseError(f"tree.rs: {fn} registered but not defined")
        if fn not in umeth or umeth[fn] not in UOPS:
            raise ParseError(f"core tree.rs: cannot find the opcode of Tree::{fn}")
        unary.append((op, UOPS[umeth[fn]]))
    m = re.search(r"for op in \[([^\]]*)\] \{\s*engine\.register_fn\(op, bad_cmp_tree_dyn\);\s*engine\.register_fn\(op, bad_cmp_dyn_tree\);", src)
    if not m:
        raise ParseError("tree.rs: banned comparison loop not found")
    cmps = re.findall(r'"([^"]+)"', m.group(1))
    if len(cmps) != 6:
        raise ParseError(f"tree.rs: expected six comparison operators, got {cmps}")
    return binary, unary, cmps


# ------------------------------------------------------------------------------ constants.rs
def std_consts():
    getcontext().prec = 60
    pi = Decimal("3.14159265358979323846264338327950288419716939937510582097494")
    two, ten = Decimal(2), Decimal(10)
    return {"PI": pi, "E": Decimal(1).exp(), "TAU": 2 * pi, "SQRT_2": two.sqrt(), "LN_2": two.ln(), "LN_10": ten.ln(),
            "LOG2_E": 1 / two.ln(), "LOG10_E": 1 / ten.ln(), "LOG2_10": ten.ln() / two.ln(), "LOG10_2": two.ln() / ten.ln(),
            "FRAC_PI_2": pi / 2, "FRAC_PI_3": pi / 3, "FRAC_PI_4": pi / 4, "FRAC_PI_6": pi / 6, "FRAC_PI_8": pi / 8,
            "FRAC_1_PI": 1 / pi, "FRAC_2_PI": 2 / pi, "FRAC_2_SQRT_PI": 2 / pi.sqrt(), "FRAC_1_SQRT_2": 1 / two.sqrt()}


def gen_constants(repo):
    src = strip_line_comments(read(repo, "fidget-rhai/src/constants.rs"))
    m = re.search(r"pub fn get_constant\(name: &str\) -> Option<f64> \{\s*match name \{(.*?)\n\s*_ => None,\s*\}\s*\}", src, re.S)
    if not m:
        raise ParseError("constants.rs: get_constant not found")
    std = std_consts()
    out = []
    body = m.group(1)
    arms = re.findall(r'((?:"\w+"\s*\|\s*)*"\w+")\s*=>\s*Some\(([^)]*)\),', body)
    leftover = re.sub(r'((?:"\w+"\s*\|\s*)*"\w+")\s*=>\s*Some\(([^)]*)\),', "", body).strip()
    if leftover:
        raise ParseError(f"constants.rs: unrecognised arms {leftover!r}")
    for names, val in arms:
        val = val.strip()
        mc = re.fullmatch(r"consts::(\w+)", val)
        if mc:
            if mc.group(1) not in std:
                raise ParseError(f"constants.rs: unknown std constant {val}")
            bits = f64_bits(std[mc.group(1)])
        else:
            ml = re.fullmatch(r"(\d+\.\d+)(?:_f64)?", val)
            if not ml:
                raise ParseError(f"constants.rs: cannot parse value {val!r}")
            bits = f64_bits(Decimal(ml.group(1)))
        for n in re.findall(r'"(\w+)"', names):
            out.append((n, bits))
    if len(out) < 10:
        raise ParseError("constants.rs: too few constants")
    return out


# ------------------------------------------------------------------------------ chains
def gen_chain(repo):
    src = strip_line_comments(read(repo, "fidget-rhai/src/shapes.rs"))
    m = re.search(r"fn value_from_dynamic\((.*?)\n\}", src, re.S)
    if not m:
        raise ParseError("shapes.rs: value_from_dynamic not found")
    chain = re.findall(r"from_dynamic_with_hint\(ctx, v\.clone\(\), default, Value::(\w+)\)", m.group(1))
    if len(chain) != 8 or sorted(chain) != sorted(VALUE_VARIANTS):
        raise ParseError(f"shapes.rs: value_from_dynamic chain not understood: {chain}")
    types = strip_line_comments(read(repo, "fidget-shapes/src/types.rs"))
    m = re.search(r"pub enum Value \{(.*?)\}", types, re.S)
    if not m:
        raise ParseError("types.rs: enum Value not found")
    enum = re.findall(r"(\w+)\(", m.group(1))
    if sorted(enum) != sorted(VALUE_VARIANTS):
        raise ParseError(f"types.rs: enum Value not understood: {enum}")
    return [VALUE_VARIANTS[c] for c in chain], [VALUE_VARIANTS[c] for c in enum]


# ------------------------------------------------------------------------------ emit
def coq_str(s):
    return '"' + s.replace('"', '""') + '"'


def emit(repo):
    shapes = gen_shapes(repo)
    binary, unary, cmps = gen_tree(repo)
    consts = gen_constants(repo)
    chain, enum = gen_chain(repo)
    o = []
    o.append("(* GENERATED by gen_rhai_tables.py from fidget-shapes/src/{lib,types}.rs, fidget-rhai/src/{tree,shapes,constants}.rs")
    o.append("   and fidget-core/src/context/tree.rs — do not edit *)")
    o.append("From Coq Require Import ZArith List String.")
    o.append("Import ListNotations.")
    o.append("Local Open Scope string_scope.")
    o.append("Local Open Scope Z_scope.")
    o.append("")
    o.append("Inductive gty := GFloat | GVec2 | GVec3 | GVec4 | GAxis | GPlane | GTree | GVecTree.")
    o.append("(* a field: name, type, default as f32 bit patterns (Float 1, Vec2 2, Vec3 3, Axis 3 = the normal,")
    o.append("   Plane 4 = normal then offset) *)")
    o.append("Definition gfield : Type := (string * gty * option (list Z))%type.")
    o.append("")
    o.append("Definition gen_shapes : list (string * list gfield) := [")
    rows = []
    for name, fields in shapes:
        fs = []
        for fname, fty, bits in fields:
            d = "None" if bits is None else "Some [" + "; ".join(str(b) for b in bits) + "]"
            fs.append(f"({coq_str(fname)}, {fty}, {d})")
        rows.append(f"  ({coq_str(name)}, [{'; '.join(fs)}])")
    o.append(";\n".join(rows))
    o.append("].")
    o.append("")
    o.append("(* rhai name, the BinaryOpcode / UnaryOpcode built by the Tree method of that registration *)")
    o.append("Definition gen_tree_binary : list (string * string) := [" + "; ".join(f"({coq_str(a)}, {coq_str(b)})" for a, b in binary) + "].")
    o.append("Definition gen_tree_unary : list (string * string) := [" + "; ".join(f"({coq_str(a)}, {coq_str(b)})" for a, b in unary) + "].")
    o.append("Definition gen_tree_cmp : list string := [" + "; ".join(coq_str(c) for c in cmps) + "].")
    o.append("")
    o.append("(* constants.rs: name, f64 bit pattern *)")
    o.append("Definition gen_constants : list (string * Z) := [" + ";\n  ".join(f"({coq_str(n)}, {b})" for n, b in consts) + "].")
    o.append("")
    o.append("Definition gen_value_chain : list gty := [" + "; ".join(chain) + "].")
    o.append("Definition gen_value_enum : list gty := [" + "; ".join(enum) + "].")
    return "\n".join(o) + "\n"


def main():
    if len(sys.argv) != 3:
        print(__doc__, file=sys.stderr)
        return 2
    try:
        txt = emit(sys.argv[1])
    except (ParseError, OSError) as e:
        print(f"gen_rhai_tables.py: PARSE FAILURE: {e}", file=sys.stderr)
        return 1
    try:
        with open(sys.argv[2]) as f:
            if f.read() == txt:
                return 0
    except OSError:
        pass
    with open(sys.argv[2], "w") as f:
        f.write(txt)
    return 0


if __name__ == "__main__":
    sys.exit(main())
